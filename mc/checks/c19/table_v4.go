package c19

import (
	rhp4 "go.sia.tech/core/rhp/v4"
	"go.sia.tech/core/types"
)

// dimension kinds
const (
	kindProtocol = "protocol" // the protocol states a maximum (batch sizes, Validate methods, proof-size arithmetic)
	kindFit      = "fit"      // no protocol maximum: the boundary is derived from the receiver's own limit
)

type dim struct {
	name string
	kind string
	pmax int    // protocol maximum (kindProtocol only)
	why  string // where pmax comes from
}

// v4type describes one rhp/v4 Object type.
type v4type struct {
	name  string
	resp  bool // written with WriteResponse and read with ReadResponse
	id    types.Specifier
	fresh func() rhp4.Object
	build func(g *gen, sz []int) rhp4.Object
	dims  []dim
}

func mkPrices(g *gen) rhp4.HostPrices {
	return rhp4.HostPrices{
		ContractPrice: g.cur(), Collateral: g.cur(), StoragePrice: g.cur(), IngressPrice: g.cur(),
		EgressPrice: g.cur(), FreeSectorPrice: g.cur(), TipHeight: g.u64(), ValidUntil: g.tm(), Signature: g.sig(),
	}
}

func mkToken(g *gen) rhp4.AccountToken {
	return rhp4.AccountToken{HostKey: types.PublicKey(g.hash()), Account: rhp4.Account(g.hash()), ValidUntil: g.tm(), Signature: g.sig()}
}

func mkContract(g *gen) types.V2FileContract {
	return types.V2FileContract{
		Capacity: g.u64(), Filesize: g.u64(), FileMerkleRoot: g.hash(), ProofHeight: g.u64(), ExpirationHeight: g.u64(),
		RenterOutput: types.SiacoinOutput{Value: g.cur(), Address: types.Address(g.hash())},
		HostOutput:   types.SiacoinOutput{Value: g.cur(), Address: types.Address(g.hash())},
		MissedHostValue: g.cur(), TotalCollateral: g.cur(),
		RenterPublicKey: types.PublicKey(g.hash()), HostPublicKey: types.PublicKey(g.hash()),
		RevisionNumber: g.u64(), RenterSignature: g.sig(), HostSignature: g.sig(),
	}
}

func mkSCE(g *gen, proof int) types.SiacoinElement {
	return types.SiacoinElement{
		ID:             types.SiacoinOutputID(g.hash()),
		StateElement:   types.StateElement{LeafIndex: g.u64(), MerkleProof: g.hashes(proof)},
		SiacoinOutput:  types.SiacoinOutput{Value: g.cur(), Address: types.Address(g.hash())},
		MaturityHeight: g.u64(),
	}
}

func mkSCEs(g *gen, n int) []types.SiacoinElement {
	if n == 0 {
		return nil
	}
	s := make([]types.SiacoinElement, n)
	for i := range s {
		s[i] = mkSCE(g, 0)
	}
	return s
}

func mkSatisfied(g *gen) types.SatisfiedPolicy {
	return types.SatisfiedPolicy{Policy: types.PolicyPublicKey(types.PublicKey(g.hash())), Signatures: []types.Signature{g.sig()}}
}

func mkSatisfieds(g *gen, n int) []types.SatisfiedPolicy {
	if n == 0 {
		return nil
	}
	s := make([]types.SatisfiedPolicy, n)
	for i := range s {
		s[i] = mkSatisfied(g)
	}
	return s
}

func mkInputs(g *gen, n int) []types.V2SiacoinInput {
	if n == 0 {
		return nil
	}
	s := make([]types.V2SiacoinInput, n)
	for i := range s {
		s[i] = types.V2SiacoinInput{Parent: mkSCE(g, 0), SatisfiedPolicy: mkSatisfied(g)}
	}
	return s
}

// mkTxn returns a v2 transaction whose encoding grows by exactly one byte per
// byte of arbitrary data (arb >= 1).
func mkTxn(g *gen, arb int) types.V2Transaction {
	return types.V2Transaction{ArbitraryData: g.bytes(arb), MinerFee: g.cur()}
}

func mkTxns(g *gen, n int) []types.V2Transaction {
	if n == 0 {
		return nil
	}
	s := make([]types.V2Transaction, n)
	for i := range s {
		s[i] = mkTxn(g, 8)
	}
	return s
}

func mkAccounts(g *gen, n int) []rhp4.Account {
	if n == 0 {
		return nil
	}
	s := make([]rhp4.Account, n)
	for i := range s {
		s[i] = rhp4.Account(g.hash())
	}
	return s
}

func mkDeposits(g *gen, n int) []rhp4.AccountDeposit {
	if n == 0 {
		return nil
	}
	s := make([]rhp4.AccountDeposit, n)
	for i := range s {
		s[i] = rhp4.AccountDeposit{Account: rhp4.Account(g.hash()), Amount: g.cur()}
	}
	return s
}

func mkCurs(g *gen, n int) []types.Currency {
	if n == 0 {
		return nil
	}
	s := make([]types.Currency, n)
	for i := range s {
		s[i] = g.cur()
	}
	return s
}

func mkU64s(g *gen, n int) []uint64 {
	if n == 0 {
		return nil
	}
	s := make([]uint64, n)
	for i := range s {
		s[i] = uint64(i) // distinct indices, as Validate demands
	}
	return s
}

func mkBools(g *gen, n int) []bool {
	if n == 0 {
		return nil
	}
	s := make([]bool, n)
	for i := range s {
		s[i] = g.u64()&1 == 1
	}
	return s
}

const (
	maxSectors = rhp4.MaxSectorBatchSize
	maxAccts   = rhp4.MaxAccountBatchSize
)

func fitDim(name string) dim { return dim{name: name, kind: kindFit} }
func protoDim(name string, max int, why string) dim {
	return dim{name: name, kind: kindProtocol, pmax: max, why: why}
}

// maxContractSectors is the largest sector count a contract can have:
// V2FileContract.Filesize is a uint64 byte count.
const maxContractSectors = (1<<64 - 1) / rhp4.SectorSize // 2^42 - 1

// v4table lists every rhp/v4 Object implementation except RPCError (family B).
// It is cross-checked at run time against the package sources.
func v4table(pm protoMaxima) []v4type {
	return []v4type{
		{name: "RPCSettingsRequest", id: rhp4.RPCSettingsID,
			fresh: func() rhp4.Object { return new(rhp4.RPCSettingsRequest) },
			build: func(g *gen, sz []int) rhp4.Object { return &rhp4.RPCSettingsRequest{} }},
		{name: "RPCSettingsResponse", resp: true,
			fresh: func() rhp4.Object { return new(rhp4.RPCSettingsResponse) },
			build: func(g *gen, sz []int) rhp4.Object {
				return &rhp4.RPCSettingsResponse{Settings: rhp4.HostSettings{
					ProtocolVersion: rhp4.ProtocolVersion{byte(g.u64()), 2, 3}, Release: g.text(sz[0]), WalletAddress: types.Address(g.hash()),
					AcceptingContracts: true, MaxCollateral: g.cur(), MaxContractDuration: g.u64(), RemainingStorage: g.u64(),
					TotalStorage: g.u64(), Prices: mkPrices(g)}}
			}, dims: []dim{fitDim("Release")}},

		{name: "RPCFormContractRequest", id: rhp4.RPCFormContractID,
			fresh: func() rhp4.Object { return new(rhp4.RPCFormContractRequest) },
			build: func(g *gen, sz []int) rhp4.Object {
				gl := &gen{s: g.s ^ 0x5DEECE66D} // independent stream for the extra input
				r := &rhp4.RPCFormContractRequest{Prices: mkPrices(g),
					Contract: rhp4.RPCFormContractParams{RenterPublicKey: types.PublicKey(g.hash()), RenterAddress: types.Address(g.hash()),
						Allowance: g.cur(), Collateral: g.cur(), ProofHeight: g.u64()},
					MinerFee: g.cur(), Basis: types.ChainIndex{Height: g.u64(), ID: types.BlockID(g.hash())},
					RenterInputs: mkSCEs(g, sz[0]), RenterParents: mkTxns(g, sz[1])}
				// Validate demands at least one input: one extra input is always
				// present and carries the Merkle proof dimension
				r.RenterInputs = append(r.RenterInputs, mkSCE(gl, sz[2]))
				return r
			}, dims: []dim{fitDim("RenterInputs(+1)"), fitDim("RenterParents"), fitDim("RenterInputs[last].MerkleProof")}},
		{name: "RPCFormContractResponse", resp: true,
			fresh: func() rhp4.Object { return new(rhp4.RPCFormContractResponse) },
			build: func(g *gen, sz []int) rhp4.Object { return &rhp4.RPCFormContractResponse{HostInputs: mkInputs(g, sz[0])} },
			dims:  []dim{fitDim("HostInputs")}},
		{name: "RPCFormContractSecondResponse", resp: true,
			fresh: func() rhp4.Object { return new(rhp4.RPCFormContractSecondResponse) },
			build: func(g *gen, sz []int) rhp4.Object {
				return &rhp4.RPCFormContractSecondResponse{RenterContractSignature: g.sig(), RenterSatisfiedPolicies: mkSatisfieds(g, sz[0])}
			}, dims: []dim{fitDim("RenterSatisfiedPolicies")}},
		{name: "RPCFormContractThirdResponse", resp: true,
			fresh: func() rhp4.Object { return new(rhp4.RPCFormContractThirdResponse) },
			build: func(g *gen, sz []int) rhp4.Object {
				return &rhp4.RPCFormContractThirdResponse{Basis: types.ChainIndex{Height: g.u64(), ID: types.BlockID(g.hash())}, TransactionSet: mkTxns(g, sz[0])}
			}, dims: []dim{fitDim("TransactionSet")}},

		{name: "RPCRenewContractRequest", id: rhp4.RPCRenewContractID,
			fresh: func() rhp4.Object { return new(rhp4.RPCRenewContractRequest) },
			build: func(g *gen, sz []int) rhp4.Object {
				return &rhp4.RPCRenewContractRequest{Prices: mkPrices(g),
					Renewal:  rhp4.RPCRenewContractParams{ContractID: types.FileContractID(g.hash()), Allowance: g.cur(), Collateral: g.cur(), ProofHeight: g.u64()},
					MinerFee: g.cur(), Basis: types.ChainIndex{Height: g.u64(), ID: types.BlockID(g.hash())},
					RenterInputs: mkSCEs(g, sz[0]), RenterParents: mkTxns(g, sz[1]), ChallengeSignature: g.sig()}
			}, dims: []dim{fitDim("RenterInputs"), fitDim("RenterParents")}},
		{name: "RPCRenewContractResponse", resp: true,
			fresh: func() rhp4.Object { return new(rhp4.RPCRenewContractResponse) },
			build: func(g *gen, sz []int) rhp4.Object { return &rhp4.RPCRenewContractResponse{HostInputs: mkInputs(g, sz[0])} },
			dims:  []dim{fitDim("HostInputs")}},
		{name: "RPCRenewContractSecondResponse", resp: true,
			fresh: func() rhp4.Object { return new(rhp4.RPCRenewContractSecondResponse) },
			build: func(g *gen, sz []int) rhp4.Object {
				return &rhp4.RPCRenewContractSecondResponse{RenterRenewalSignature: g.sig(), RenterContractSignature: g.sig(), RenterSatisfiedPolicies: mkSatisfieds(g, sz[0])}
			}, dims: []dim{fitDim("RenterSatisfiedPolicies")}},
		{name: "RPCRenewContractThirdResponse", resp: true,
			fresh: func() rhp4.Object { return new(rhp4.RPCRenewContractThirdResponse) },
			build: func(g *gen, sz []int) rhp4.Object {
				return &rhp4.RPCRenewContractThirdResponse{Basis: types.ChainIndex{Height: g.u64(), ID: types.BlockID(g.hash())}, TransactionSet: mkTxns(g, sz[0])}
			}, dims: []dim{fitDim("TransactionSet")}},

		{name: "RPCRefreshContractRequest", id: rhp4.RPCRefreshContractID,
			fresh: func() rhp4.Object { return new(rhp4.RPCRefreshContractRequest) },
			build: func(g *gen, sz []int) rhp4.Object {
				return &rhp4.RPCRefreshContractRequest{Prices: mkPrices(g),
					Refresh:  rhp4.RPCRefreshContractParams{ContractID: types.FileContractID(g.hash()), Allowance: g.cur(), Collateral: g.cur()},
					MinerFee: g.cur(), Basis: types.ChainIndex{Height: g.u64(), ID: types.BlockID(g.hash())},
					RenterInputs: mkSCEs(g, sz[0]), RenterParents: mkTxns(g, sz[1]), ChallengeSignature: g.sig()}
			}, dims: []dim{fitDim("RenterInputs"), fitDim("RenterParents")}},
		{name: "RPCRefreshContractResponse", resp: true,
			fresh: func() rhp4.Object { return new(rhp4.RPCRefreshContractResponse) },
			build: func(g *gen, sz []int) rhp4.Object { return &rhp4.RPCRefreshContractResponse{HostInputs: mkInputs(g, sz[0])} },
			dims:  []dim{fitDim("HostInputs")}},
		{name: "RPCRefreshContractSecondResponse", resp: true,
			fresh: func() rhp4.Object { return new(rhp4.RPCRefreshContractSecondResponse) },
			build: func(g *gen, sz []int) rhp4.Object {
				return &rhp4.RPCRefreshContractSecondResponse{RenterRenewalSignature: g.sig(), RenterContractSignature: g.sig(), RenterSatisfiedPolicies: mkSatisfieds(g, sz[0])}
			}, dims: []dim{fitDim("RenterSatisfiedPolicies")}},
		{name: "RPCRefreshContractThirdResponse", resp: true,
			fresh: func() rhp4.Object { return new(rhp4.RPCRefreshContractThirdResponse) },
			build: func(g *gen, sz []int) rhp4.Object {
				return &rhp4.RPCRefreshContractThirdResponse{Basis: types.ChainIndex{Height: g.u64(), ID: types.BlockID(g.hash())}, TransactionSet: mkTxns(g, sz[0])}
			}, dims: []dim{fitDim("TransactionSet")}},

		{name: "RPCFreeSectorsRequest", id: rhp4.RPCFreeSectorsID,
			fresh: func() rhp4.Object { return new(rhp4.RPCFreeSectorsRequest) },
			build: func(g *gen, sz []int) rhp4.Object {
				return &rhp4.RPCFreeSectorsRequest{ContractID: types.FileContractID(g.hash()), Prices: mkPrices(g), Indices: mkU64s(g, sz[0]), ChallengeSignature: g.sig()}
			}, dims: []dim{protoDim("Indices", maxSectors, "RPCFreeSectorsRequest.Validate: len(Indices) <= MaxSectorBatchSize")}},
		{name: "RPCFreeSectorsResponse", resp: true,
			fresh: func() rhp4.Object { return new(rhp4.RPCFreeSectorsResponse) },
			build: func(g *gen, sz []int) rhp4.Object {
				return &rhp4.RPCFreeSectorsResponse{OldSubtreeHashes: g.hashes(sz[0]), OldLeafHashes: g.hashes(sz[1]), NewMerkleRoot: g.hash()}
			},
			// the protocol maximum of this response is a joint function of both
			// slices; it is handled by the worst-case sub-check (worstcase.go)
			dims: []dim{fitDim("OldSubtreeHashes"), fitDim("OldLeafHashes")}},
		{name: "RPCFreeSectorsSecondResponse", resp: true,
			fresh: func() rhp4.Object { return new(rhp4.RPCFreeSectorsSecondResponse) },
			build: func(g *gen, sz []int) rhp4.Object { return &rhp4.RPCFreeSectorsSecondResponse{RenterSignature: g.sig()} }},
		{name: "RPCFreeSectorsThirdResponse", resp: true,
			fresh: func() rhp4.Object { return new(rhp4.RPCFreeSectorsThirdResponse) },
			build: func(g *gen, sz []int) rhp4.Object { return &rhp4.RPCFreeSectorsThirdResponse{HostSignature: g.sig()} }},

		{name: "RPCAppendSectorsRequest", id: rhp4.RPCAppendSectorsID,
			fresh: func() rhp4.Object { return new(rhp4.RPCAppendSectorsRequest) },
			build: func(g *gen, sz []int) rhp4.Object {
				return &rhp4.RPCAppendSectorsRequest{Prices: mkPrices(g), Sectors: g.hashes(sz[0]), ContractID: types.FileContractID(g.hash()), ChallengeSignature: g.sig()}
			}, dims: []dim{protoDim("Sectors", maxSectors, "RPCAppendSectorsRequest.Validate: len(Sectors) <= MaxSectorBatchSize")}},
		{name: "RPCAppendSectorsResponse", resp: true,
			fresh: func() rhp4.Object { return new(rhp4.RPCAppendSectorsResponse) },
			build: func(g *gen, sz []int) rhp4.Object {
				return &rhp4.RPCAppendSectorsResponse{Accepted: mkBools(g, sz[0]), SubtreeRoots: g.hashes(sz[1]), NewMerkleRoot: g.hash()}
			}, dims: []dim{
				protoDim("Accepted", maxSectors, "one flag per requested sector, request limited to MaxSectorBatchSize"),
				protoDim("SubtreeRoots", pm.appendRoots, "BuildAppendProof: one root per set bit of the old sector count; max over sector counts < 2^42")}},
		{name: "RPCAppendSectorsSecondResponse", resp: true,
			fresh: func() rhp4.Object { return new(rhp4.RPCAppendSectorsSecondResponse) },
			build: func(g *gen, sz []int) rhp4.Object {
				return &rhp4.RPCAppendSectorsSecondResponse{RenterSignature: g.sig()}
			}},
		{name: "RPCAppendSectorsThirdResponse", resp: true,
			fresh: func() rhp4.Object { return new(rhp4.RPCAppendSectorsThirdResponse) },
			build: func(g *gen, sz []int) rhp4.Object { return &rhp4.RPCAppendSectorsThirdResponse{HostSignature: g.sig()} }},

		{name: "RPCLatestRevisionRequest", id: rhp4.RPCLatestRevisionID,
			fresh: func() rhp4.Object { return new(rhp4.RPCLatestRevisionRequest) },
			build: func(g *gen, sz []int) rhp4.Object {
				return &rhp4.RPCLatestRevisionRequest{ContractID: types.FileContractID(g.hash())}
			}},
		{name: "RPCLatestRevisionResponse", resp: true,
			fresh: func() rhp4.Object { return new(rhp4.RPCLatestRevisionResponse) },
			build: func(g *gen, sz []int) rhp4.Object {
				return &rhp4.RPCLatestRevisionResponse{Contract: mkContract(g), Revisable: true, Renewed: true}
			}},

		{name: "RPCReadSectorRequest", id: rhp4.RPCReadSectorID,
			fresh: func() rhp4.Object { return new(rhp4.RPCReadSectorRequest) },
			build: func(g *gen, sz []int) rhp4.Object {
				return &rhp4.RPCReadSectorRequest{Prices: mkPrices(g), Token: mkToken(g), Root: g.hash(), Offset: g.u64(), Length: g.u64()}
			}},
		{name: "RPCReadSectorResponse", resp: true,
			fresh: func() rhp4.Object { return new(rhp4.RPCReadSectorResponse) },
			build: func(g *gen, sz []int) rhp4.Object {
				return &rhp4.RPCReadSectorResponse{Proof: g.hashes(sz[0]), DataLength: g.u64()}
			}, dims: []dim{protoDim("Proof", pm.readProof, "max RangeProofSize(LeavesPerSector, start, end) over all leaf ranges allowed by RPCReadSectorRequest.Validate")}},

		{name: "RPCWriteSectorRequest", id: rhp4.RPCWriteSectorID,
			fresh: func() rhp4.Object { return new(rhp4.RPCWriteSectorRequest) },
			build: func(g *gen, sz []int) rhp4.Object {
				return &rhp4.RPCWriteSectorRequest{Prices: mkPrices(g), Token: mkToken(g), DataLength: g.u64()}
			}},
		{name: "RPCWriteSectorResponse", resp: true,
			fresh: func() rhp4.Object { return new(rhp4.RPCWriteSectorResponse) },
			build: func(g *gen, sz []int) rhp4.Object { return &rhp4.RPCWriteSectorResponse{Root: g.hash()} }},

		{name: "RPCSectorRootsRequest", id: rhp4.RPCSectorRootsID,
			fresh: func() rhp4.Object { return new(rhp4.RPCSectorRootsRequest) },
			build: func(g *gen, sz []int) rhp4.Object {
				return &rhp4.RPCSectorRootsRequest{Prices: mkPrices(g), ContractID: types.FileContractID(g.hash()), RenterSignature: g.sig(), Offset: g.u64(), Length: g.u64()}
			}},
		{name: "RPCSectorRootsResponse", resp: true,
			fresh: func() rhp4.Object { return new(rhp4.RPCSectorRootsResponse) },
			build: func(g *gen, sz []int) rhp4.Object {
				return &rhp4.RPCSectorRootsResponse{Proof: g.hashes(sz[0]), Roots: g.hashes(sz[1]), HostSignature: g.sig()}
			}, dims: []dim{
				protoDim("Proof", pm.rootsProof, "max RangeProofSize(n, off, off+len) over contracts of up to 2^42-1 sectors, len <= MaxSectorBatchSize"),
				protoDim("Roots", maxSectors, "RPCSectorRootsRequest.Validate: Length <= MaxSectorBatchSize")}},

		{name: "RPCAccountBalanceRequest", id: rhp4.RPCAccountBalanceID,
			fresh: func() rhp4.Object { return new(rhp4.RPCAccountBalanceRequest) },
			build: func(g *gen, sz []int) rhp4.Object {
				return &rhp4.RPCAccountBalanceRequest{Account: rhp4.Account(g.hash())}
			}},
		{name: "RPCAccountBalanceResponse", resp: true,
			fresh: func() rhp4.Object { return new(rhp4.RPCAccountBalanceResponse) },
			build: func(g *gen, sz []int) rhp4.Object { return &rhp4.RPCAccountBalanceResponse{Balance: g.cur()} }},

		{name: "RPCReplenishAccountsRequest", id: rhp4.RPCReplenishAccountsID,
			fresh: func() rhp4.Object { return new(rhp4.RPCReplenishAccountsRequest) },
			build: func(g *gen, sz []int) rhp4.Object {
				return &rhp4.RPCReplenishAccountsRequest{Accounts: mkAccounts(g, sz[0]), Target: g.cur(), ContractID: types.FileContractID(g.hash()), ChallengeSignature: g.sig()}
			}, dims: []dim{protoDim("Accounts", maxAccts, "RPCReplenishAccountsRequest.Validate: len(Accounts) <= MaxAccountBatchSize")}},
		{name: "RPCReplenishAccountsResponse", resp: true,
			fresh: func() rhp4.Object { return new(rhp4.RPCReplenishAccountsResponse) },
			build: func(g *gen, sz []int) rhp4.Object {
				return &rhp4.RPCReplenishAccountsResponse{Deposits: mkDeposits(g, sz[0])}
			}, dims: []dim{protoDim("Deposits", maxAccts, "at most one deposit per requested account (MaxAccountBatchSize)")}},
		{name: "RPCReplenishAccountsSecondResponse", resp: true,
			fresh: func() rhp4.Object { return new(rhp4.RPCReplenishAccountsSecondResponse) },
			build: func(g *gen, sz []int) rhp4.Object {
				return &rhp4.RPCReplenishAccountsSecondResponse{RenterSignature: g.sig()}
			}},
		{name: "RPCReplenishAccountsThirdResponse", resp: true,
			fresh: func() rhp4.Object { return new(rhp4.RPCReplenishAccountsThirdResponse) },
			build: func(g *gen, sz []int) rhp4.Object {
				return &rhp4.RPCReplenishAccountsThirdResponse{HostSignature: g.sig()}
			}},

		{name: "RPCFundAccountsRequest", id: rhp4.RPCFundAccountsID,
			fresh: func() rhp4.Object { return new(rhp4.RPCFundAccountsRequest) },
			build: func(g *gen, sz []int) rhp4.Object {
				return &rhp4.RPCFundAccountsRequest{ContractID: types.FileContractID(g.hash()), Deposits: mkDeposits(g, sz[0]), RenterSignature: g.sig()}
			}, dims: []dim{protoDim("Deposits", maxAccts, "RPCFundAccountsRequest.Validate: len(Deposits) <= MaxAccountBatchSize")}},
		{name: "RPCFundAccountsResponse", resp: true,
			fresh: func() rhp4.Object { return new(rhp4.RPCFundAccountsResponse) },
			build: func(g *gen, sz []int) rhp4.Object {
				return &rhp4.RPCFundAccountsResponse{Balances: mkCurs(g, sz[0]), HostSignature: g.sig()}
			}, dims: []dim{protoDim("Balances", maxAccts, "one balance per deposit (MaxAccountBatchSize)")}},

		{name: "RPCAttachPoolsRequest", id: rhp4.RPCAttachPoolsID,
			fresh: func() rhp4.Object { return new(rhp4.RPCAttachPoolsRequest) },
			build: func(g *gen, sz []int) rhp4.Object {
				var as []rhp4.PoolAttachment
				for i := 0; i < sz[0]; i++ {
					as = append(as, rhp4.PoolAttachment{Account: rhp4.Account(g.hash()), Pool: rhp4.Account(g.hash()), ValidUntil: g.tm(), Signature: g.sig()})
				}
				return &rhp4.RPCAttachPoolsRequest{Attachments: as}
			}, dims: []dim{protoDim("Attachments", maxAccts, "RPCAttachPoolsRequest.Validate: <= MaxAccountBatchSize")}},
		{name: "RPCAttachPoolsResponse", resp: true,
			fresh: func() rhp4.Object { return new(rhp4.RPCAttachPoolsResponse) },
			build: func(g *gen, sz []int) rhp4.Object { return &rhp4.RPCAttachPoolsResponse{} }},
		{name: "RPCDetachPoolsRequest", id: rhp4.RPCDetachPoolsID,
			fresh: func() rhp4.Object { return new(rhp4.RPCDetachPoolsRequest) },
			build: func(g *gen, sz []int) rhp4.Object {
				var ds []rhp4.PoolDetachment
				for i := 0; i < sz[0]; i++ {
					ds = append(ds, rhp4.PoolDetachment{Account: rhp4.Account(g.hash()), Pool: rhp4.Account(g.hash()), ValidUntil: g.tm(), Signature: g.sig()})
				}
				return &rhp4.RPCDetachPoolsRequest{Detachments: ds}
			}, dims: []dim{protoDim("Detachments", maxAccts, "RPCDetachPoolsRequest.Validate: <= MaxAccountBatchSize")}},
		{name: "RPCDetachPoolsResponse", resp: true,
			fresh: func() rhp4.Object { return new(rhp4.RPCDetachPoolsResponse) },
			build: func(g *gen, sz []int) rhp4.Object { return &rhp4.RPCDetachPoolsResponse{} }},

		{name: "RPCVerifySectorRequest", id: rhp4.RPCVerifySectorID,
			fresh: func() rhp4.Object { return new(rhp4.RPCVerifySectorRequest) },
			build: func(g *gen, sz []int) rhp4.Object {
				return &rhp4.RPCVerifySectorRequest{Prices: mkPrices(g), Token: mkToken(g), Root: g.hash(), LeafIndex: g.u64()}
			}},
		{name: "RPCVerifySectorResponse", resp: true,
			fresh: func() rhp4.Object { return new(rhp4.RPCVerifySectorResponse) },
			build: func(g *gen, sz []int) rhp4.Object {
				r := &rhp4.RPCVerifySectorResponse{Proof: g.hashes(sz[0])}
				g.fill(r.Leaf[:])
				return r
			}, dims: []dim{protoDim("Proof", pm.verifyProof, "ProofSize(LeavesPerSector, i) for every leaf index allowed by RPCVerifySectorRequest.Validate")}},
	}
}
