package c19

import (
	"bytes"
	"fmt"
	"sort"
	"time"

	rhp2 "go.sia.tech/core/rhp/v2"
	rhp4 "go.sia.tech/core/rhp/v4"
	"go.sia.tech/core/types"
	"verifmc/vf"
)

// protoMaxima holds protocol maxima that are derived arithmetically from the
// proof-size functions.
type protoMaxima struct {
	appendRoots int
	readProof   int
	rootsProof  int
	verifyProof int
}

func popcount(n uint64) int {
	c := 0
	for ; n > 0; n /= 2 {
		if n%2 == 1 {
			c++
		}
	}
	return c
}

// boundarySet returns the structured menu of values in [0, limit]: small
// values, powers of two and their neighbours, all-ones and alternating patterns.
func boundarySet(limit uint64) []uint64 {
	set := map[uint64]bool{}
	add := func(v uint64) {
		if v <= limit {
			set[v] = true
		}
	}
	for v := uint64(0); v <= 5; v++ {
		add(v)
	}
	for j := uint(1); j < 64; j++ {
		p := uint64(1) << j
		add(p - 1)
		add(p)
		add(p + 1)
		add(p + p/2)       // 0b11000..
		add(p - 1 - p/2)   // 0b0111.. with the top cleared
		add(p/2 + p/4 + 1) // mixed
		add(0x5555555555555555 & (p - 1))
		add(0xAAAAAAAAAAAAAAAA & (p - 1))
	}
	add(limit)
	if limit > 0 {
		add(limit - 1)
	}
	out := make([]uint64, 0, len(set))
	for v := range set {
		out = append(out, v)
	}
	sort.Slice(out, func(i, j int) bool { return out[i] < out[j] })
	return out
}

// contractSizes is the menu of contract sector counts.
func contractSizes(c *vf.Ctx) []uint64 {
	k := uint64(rhp4.MaxSectorBatchSize)
	ns := []uint64{1, 2, 3, 5, 8, 1000, k - 1, k, k + 1, 2 * k, 2*k + k/2, 3*k - 1, 3 * k, 3*k + 1, 4 * k, 1 << 20, 1<<20 + 1, 1 << 24, 1<<30 + 12345, 1 << 32, 1<<41 - 1, 1 << 41, maxContractSectors - 1, maxContractSectors}
	if !c.Quick() {
		for j := uint(1); j < 42; j++ {
			ns = append(ns, 1<<j-1, 1<<j, 1<<j+1)
		}
		for m := uint64(5); m <= 64; m++ {
			ns = append(ns, m*k/2+m)
		}
	}
	set := map[uint64]bool{}
	var out []uint64
	for _, n := range ns {
		if n >= 1 && n <= maxContractSectors && !set[n] {
			set[n] = true
			out = append(out, n)
		}
	}
	sort.Slice(out, func(i, j int) bool { return out[i] < out[j] })
	return out
}

// computeProtoMaxima evaluates the proof-size arithmetic over its menus. The
// independent reference is compared with the repository's size functions on
// every evaluated point; a disagreement is reported (it would be a C16 defect)
// and the larger value is used.
func computeProtoMaxima(c *vf.Ctx) protoMaxima {
	var pm protoMaxima
	disagree := func(what string, ref, impl uint64, args ...any) {
		c.Violate("rhp2.RangeProofSize|disagrees-with-tree-definition|"+what,
			fmt.Sprintf("%s%v: reference %d, implementation %d", what, args, ref, impl), map[string]any{"family": "proofsize", "what": what, "args": args})
	}
	// VerifySector: single-leaf proofs in a sector
	for i := uint64(0); i < rhp4.LeavesPerSector; i++ {
		r := refRangeProofSize(rhp4.LeavesPerSector, i, i+1)
		if impl := rhp2.ProofSize(rhp4.LeavesPerSector, i); impl != r {
			disagree("ProofSize", r, impl, rhp4.LeavesPerSector, i)
		}
		if int(r) > pm.verifyProof {
			pm.verifyProof = int(r)
		}
		c.Count("proof_size_points", 1)
	}
	// ReadSector: leaf ranges in a sector
	bs := boundarySet(rhp4.LeavesPerSector)
	for _, s := range bs {
		for _, e := range bs {
			if s >= e {
				continue
			}
			r := refRangeProofSize(rhp4.LeavesPerSector, s, e)
			if impl := rhp2.RangeProofSize(rhp4.LeavesPerSector, s, e); impl != r {
				disagree("RangeProofSize", r, impl, rhp4.LeavesPerSector, s, e)
			}
			if int(r) > pm.readProof {
				pm.readProof = int(r)
			}
			c.Count("proof_size_points", 1)
		}
	}
	// exhaustive cross-check of the reference on small trees
	for n := uint64(1); n <= vf.Pick(c, uint64(40), uint64(96)); n++ {
		for s := uint64(0); s < n; s++ {
			for e := s + 1; e <= n; e++ {
				if r, impl := refRangeProofSize(n, s, e), rhp2.RangeProofSize(n, s, e); r != impl {
					disagree("RangeProofSize", r, impl, n, s, e)
				}
				c.Count("proof_size_points", 1)
			}
		}
	}
	// SectorRoots: ranges of at most MaxSectorBatchSize roots in contracts of up to 2^42-1 sectors
	k := uint64(rhp4.MaxSectorBatchSize)
	for _, n := range contractSizes(c) {
		for _, off := range boundarySet(n) {
			for _, l := range []uint64{1, 2, 3, k - 1, k} {
				if off >= n || l > n-off {
					continue
				}
				r := refRangeProofSize(n, off, off+l)
				if impl := rhp2.RangeProofSize(n, off, off+l); impl != r {
					disagree("RangeProofSize", r, impl, n, off, off+l)
				}
				if int(r) > pm.rootsProof {
					pm.rootsProof = int(r)
				}
				c.Count("proof_size_points", 1)
			}
		}
		if p := popcount(n); p > pm.appendRoots {
			pm.appendRoots = p
		}
	}
	c.Set("protocol_maxima_from_proof_arithmetic", map[string]int{
		"RPCVerifySectorResponse.Proof": pm.verifyProof, "RPCReadSectorResponse.Proof": pm.readProof,
		"RPCSectorRootsResponse.Proof": pm.rootsProof, "RPCAppendSectorsResponse.SubtreeRoots": pm.appendRoots,
	})
	return pm
}

// ---- worst-case proof-bearing responses --------------------------------------

type worstEnv struct {
	hostKey types.PrivateKey
	prices  rhp4.HostPrices
	le      *limitsEnv
}

func newWorstEnv(c *vf.Ctx, le *limitsEnv) *worstEnv {
	g := newGen(c.Seed, "hostkey")
	hk := types.NewPrivateKeyFromSeed(g.bytes(32))
	p := rhp4.HostPrices{ContractPrice: g.cur(), StoragePrice: types.NewCurrency64(1), TipHeight: 100, ValidUntil: time.Unix(1<<34, 0)}
	p.Signature = hk.SignHash(p.SigHash())
	return &worstEnv{hostKey: hk, prices: p, le: le}
}

func freeRespSize(tree, leaf uint64) uint64 { return 1 + 8 + 32*tree + 8 + 32*leaf + 32 }

func (we *worstEnv) enumerate(c *vf.Ctx) []limCase {
	var cases []limCase
	k := uint64(rhp4.MaxSectorBatchSize)
	for _, fam := range freeFamilies {
		for _, n := range contractSizes(c) {
			cases = append(cases, limCase{Family: "worstcase", Proto: "rhp4", Type: "RPCFreeSectorsResponse", Role: "response", Pattern: fam, Sectors: n, Batch: k})
		}
		// real proofs on small contracts, every batch size
		for _, n := range []uint64{1, 2, 3, 4, 5, 7, 8, 9, 16, 17, 33, 100, 1000} {
			for _, b := range []uint64{1, 2, n / 2, n} {
				if b >= 1 && b <= n {
					cases = append(cases, limCase{Family: "worstcase", Proto: "rhp4", Type: "RPCFreeSectorsResponse", Role: "response", Pattern: fam, Sectors: n, Batch: b, N: 1})
				}
			}
		}
	}
	// real, few-MiB and worst-case materialised objects
	cases = append(cases,
		limCase{Family: "worstcase", Proto: "rhp4", Type: "RPCFreeSectorsResponse", Role: "response", Pattern: "alternating", Sectors: 3 * (k / 8), Batch: k / 8, N: 1},
		limCase{Family: "worstcase", Proto: "rhp4", Type: "RPCFreeSectorsResponse", Role: "response", Pattern: "alternating", Sectors: 3 * (k / 2), Batch: k / 2, N: 1},
		limCase{Family: "worstcase", Proto: "rhp4", Type: "RPCFreeSectorsResponse", Role: "response", Pattern: "alternating", Sectors: 3 * k, Batch: k, N: 1},
		limCase{Family: "worstcase", Proto: "rhp4", Type: "RPCFreeSectorsResponse", Role: "response", Pattern: "all", Sectors: k, Batch: k, N: 1},
		limCase{Family: "worstcase", Proto: "rhp4", Type: "RPCSectorRootsResponse", Role: "response", Sectors: 3*k + 1, Batch: k, N: 1},
		limCase{Family: "worstcase", Proto: "rhp4", Type: "RPCSectorRootsResponse", Role: "response", Sectors: 1000, Batch: 999, N: 1},
		limCase{Family: "worstcase", Proto: "rhp4", Type: "RPCAppendSectorsResponse", Role: "response", Sectors: 1<<17 - 1, Batch: k, N: 1},
		limCase{Family: "worstcase", Proto: "rhp4", Type: "RPCAppendSectorsResponse", Role: "response", Sectors: 1000, Batch: 3, N: 1},
		limCase{Family: "worstcase", Proto: "rhp4", Type: "RPCReadSectorResponse", Role: "response", N: 1},
		limCase{Family: "worstcase", Proto: "rhp4", Type: "RPCVerifySectorResponse", Role: "response", N: 1},
	)
	for _, n := range contractSizes(c) {
		cases = append(cases,
			limCase{Family: "worstcase", Proto: "rhp4", Type: "RPCSectorRootsResponse", Role: "response", Sectors: n, Batch: k},
			limCase{Family: "worstcase", Proto: "rhp4", Type: "RPCAppendSectorsResponse", Role: "response", Sectors: n, Batch: k})
	}
	return cases
}

const sigFreeSectors = "rhp4.ReadResponse|valid-message-exceeds-maxLen|RPCFreeSectorsResponse"

func (we *worstEnv) run(c *vf.Ctx, lc limCase) {
	c.Count("evaluations", 1)
	c.Count("worstcase_cases", 1)
	switch lc.Type {
	case "RPCFreeSectorsResponse":
		if lc.N == 1 {
			we.freeReal(c, lc)
		} else {
			we.freeArith(c, lc)
		}
	case "RPCSectorRootsResponse":
		we.rootsCase(c, lc)
	case "RPCAppendSectorsResponse":
		we.appendCase(c, lc)
	case "RPCReadSectorResponse", "RPCVerifySectorResponse":
		we.sectorProofCase(c, lc)
	default:
		c.HarnessError("unknown worst-case type %q", lc.Type)
	}
	c.Distinct("worstcase", lc.Type, lc.Pattern, lc.Sectors, lc.Batch, lc.N)
}

func freeActions(freed []uint64, n uint64) []rhp2.RPCWriteAction {
	as := make([]rhp2.RPCWriteAction, 0, len(freed)+1)
	for i, f := range freed {
		as = append(as, rhp2.RPCWriteAction{Type: rhp2.RPCWriteActionSwap, A: f, B: n - uint64(i) - 1})
	}
	return append(as, rhp2.RPCWriteAction{Type: rhp2.RPCWriteActionTrim, A: uint64(len(freed))})
}

// validFreeRequest checks with the protocol's own Validate that freeing
// `freed` on a contract of n sectors is an admissible request.
func (we *worstEnv) validFreeRequest(freed []uint64, n uint64) error {
	req := &rhp4.RPCFreeSectorsRequest{Prices: we.prices, Indices: freed}
	return req.Validate(we.hostKey.PublicKey(), types.V2FileContract{Filesize: n * rhp4.SectorSize})
}

func (we *worstEnv) freeArith(c *vf.Ctx, lc limCase) {
	n, k := lc.Sectors, lc.Batch
	freed := freePattern(lc.Pattern, n, k)
	if len(freed) == 0 {
		return
	}
	if err := we.validFreeRequest(freed, n); err != nil {
		c.HarnessError("pattern %s on %d sectors is not a valid request: %v", lc.Pattern, n, err)
		return
	}
	tree, leaf := refDiffProofSize(freeChanged(freed, n), n)
	if impl := rhp2.DiffProofSize(freeActions(freed, n), n); impl != tree+leaf {
		c.Violate("rhp2.DiffProofSize|disagrees-with-tree-definition|", fmt.Sprintf("pattern %s n=%d k=%d: reference %d+%d, DiffProofSize %d", lc.Pattern, n, k, tree, leaf, impl), lc)
	}
	t := we.le.byName[lc.Type]
	L := uint64(receiverLimit(t))
	size := freeRespSize(tree, leaf)
	c.Count("worstcase_arithmetic", 1)
	if size > L {
		c.Violate(sigFreeSectors, fmt.Sprintf("freeing %d sectors (pattern %q, passes RPCFreeSectorsRequest.Validate) of a %d-sector contract needs %d subtree + %d leaf hashes = %d bytes; the renter admits %d bytes (1024 + maxLen)",
			len(freed), lc.Pattern, n, tree, leaf, size, L), lc)
		c.Count("worstcase_over_limit", 1)
	} else {
		c.Count("worstcase_within_limit", 1)
	}
}

func (we *worstEnv) freeReal(c *vf.Ctx, lc limCase) {
	n, k := lc.Sectors, lc.Batch
	freed := freePattern(lc.Pattern, n, k)
	if len(freed) == 0 {
		return
	}
	big := n > 50000
	bigLimiter.do(big, func() {
		if err := we.validFreeRequest(freed, n); err != nil {
			c.HarnessError("pattern %s on %d sectors is not a valid request: %v", lc.Pattern, n, err)
			return
		}
		g := newGen(c.Seed, "roots")
		roots := g.hashes(int(n))
		treeH, leafH := rhp4.BuildFreeSectorsProof(roots, freed)
		tree, leaf := refDiffProofSize(freeChanged(freed, n), n)
		if uint64(len(treeH)) != tree || uint64(len(leafH)) != leaf {
			c.Violate("rhp4.BuildFreeSectorsProof|size-disagrees-with-tree-definition|", fmt.Sprintf("pattern %s n=%d k=%d: built %d+%d hashes, reference %d+%d", lc.Pattern, n, k, len(treeH), len(leafH), tree, leaf), lc)
			return
		}
		oldRoot := rhp4.MetaRoot(roots)
		nr := append([]types.Hash256(nil), roots...)
		for i, f := range freed {
			j := n - uint64(i) - 1
			nr[f], nr[j] = nr[j], nr[f]
		}
		nr = nr[:n-uint64(len(freed))]
		newRoot := rhp4.MetaRoot(nr)
		if !rhp4.VerifyFreeSectorsProof(treeH, leafH, freed, n, oldRoot, newRoot) {
			c.HarnessError("honest free-sectors proof does not verify (pattern %s n=%d k=%d)", lc.Pattern, n, k)
			return
		}
		resp := &rhp4.RPCFreeSectorsResponse{OldSubtreeHashes: treeH, OldLeafHashes: leafH, NewMerkleRoot: newRoot}
		we.roundTripValid(c, lc, resp, fmt.Sprintf("the honest host's answer to freeing %d sectors (pattern %q) of a %d-sector contract (%d subtree + %d leaf hashes)", len(freed), lc.Pattern, n, tree, leaf), sigFreeSectors)
		c.Count("worstcase_real_proofs", 1)
	})
}

// roundTripValid sends a protocol-valid response through the real writer and
// reader and requires it to arrive.
func (we *worstEnv) roundTripValid(c *vf.Ctx, lc limCase, resp rhp4.Object, what, exceedSig string) {
	t := we.le.byName[lc.Type]
	L := receiverLimit(t)
	var buf bytes.Buffer
	if err := rhp4.WriteResponse(&buf, resp); err != nil {
		c.HarnessError("WriteResponse failed: %v", err)
		return
	}
	frame := buf.Bytes()
	er := &endlessReader{frame: frame}
	got := t.fresh()
	var rerr error
	if p, st := vf.Try(func() { rerr = rhp4.ReadResponse(er, got) }); p != nil {
		c.Violate("rhp4.ReadResponse|panic|"+lc.Type, fmt.Sprintf("%v\n%s", p, st), lc)
		return
	}
	if er.consumed > int64(L) {
		c.Violate("rhp4.ReadResponse|reads-beyond-limit|"+lc.Type, fmt.Sprintf("%s: consumed %d > limit %d", what, er.consumed, L), lc)
	}
	switch {
	case len(frame) > L:
		c.Count("worstcase_over_limit", 1)
		d := fmt.Sprintf("%s encodes to %d bytes; the renter admits %d bytes (1024 + maxLen)", what, len(frame), L)
		if rerr != nil {
			d += fmt.Sprintf("; ReadResponse failed with: %v", rerr)
		} else {
			d += "; ReadResponse nevertheless succeeded"
			c.Violate("rhp4.ReadResponse|over-limit-message-accepted|"+lc.Type, d, lc)
		}
		c.Violate(exceedSig, d, lc)
	case rerr != nil:
		c.Violate("rhp4.ReadResponse|in-limit-message-rejected|"+lc.Type, fmt.Sprintf("%s (%d bytes, limit %d): %v", what, len(frame), L, rerr), lc)
	case !equalObj(resp, got):
		c.Violate("rhp4.ReadResponse|decoded-object-differs|"+lc.Type, what+": decoded object differs", lc)
	case er.consumed != int64(len(frame)):
		c.Violate("rhp4.ReadResponse|consumed-differs-from-written|"+lc.Type, fmt.Sprintf("%s: wrote %d, consumed %d", what, len(frame), er.consumed), lc)
	default:
		c.Count("worstcase_within_limit", 1)
	}
}

func (we *worstEnv) rootsCase(c *vf.Ctx, lc limCase) {
	n, k := lc.Sectors, lc.Batch
	t := we.le.byName[lc.Type]
	L := uint64(receiverLimit(t))
	if lc.N != 1 {
		// arithmetic: every boundary offset, the largest admissible length
		worst := uint64(0)
		for _, off := range boundarySet(n) {
			if off >= n {
				continue
			}
			l := k
			if l > n-off {
				l = n - off
			}
			req := &rhp4.RPCSectorRootsRequest{Prices: we.prices, Offset: off, Length: l}
			if err := req.Validate(we.hostKey.PublicKey(), types.V2FileContract{Filesize: n * rhp4.SectorSize}); err != nil {
				c.HarnessError("sector roots request off=%d len=%d n=%d invalid: %v", off, l, n, err)
				return
			}
			size := 1 + 8 + 32*refRangeProofSize(n, off, off+l) + 8 + 32*l + 64
			if size > worst {
				worst = size
			}
		}
		c.Count("worstcase_arithmetic", 1)
		if worst > L {
			c.Violate("rhp4.ReadResponse|valid-message-exceeds-maxLen|RPCSectorRootsResponse", fmt.Sprintf("contract of %d sectors: worst response %d bytes > limit %d", n, worst, L), lc)
			c.Count("worstcase_over_limit", 1)
		} else {
			c.Count("worstcase_within_limit", 1)
		}
		return
	}
	bigLimiter.do(n > 50000, func() {
		g := newGen(c.Seed, "roots")
		roots := g.hashes(int(n))
		off := uint64(1)
		l := k
		if l > n-off {
			l = n - off
		}
		req := &rhp4.RPCSectorRootsRequest{Prices: we.prices, Offset: off, Length: l}
		if err := req.Validate(we.hostKey.PublicKey(), types.V2FileContract{Filesize: n * rhp4.SectorSize}); err != nil {
			c.HarnessError("sector roots request invalid: %v", err)
			return
		}
		proof := rhp4.BuildSectorRootsProof(roots, off, off+l)
		if uint64(len(proof)) != refRangeProofSize(n, off, off+l) {
			c.Violate("rhp4.BuildSectorRootsProof|size-disagrees-with-tree-definition|", fmt.Sprintf("n=%d [%d,%d): built %d, reference %d", n, off, off+l, len(proof), refRangeProofSize(n, off, off+l)), lc)
			return
		}
		if !rhp4.VerifySectorRootsProof(proof, roots[off:off+l], n, off, off+l, rhp4.MetaRoot(roots)) {
			c.HarnessError("honest sector roots proof does not verify")
			return
		}
		resp := &rhp4.RPCSectorRootsResponse{Proof: proof, Roots: roots[off : off+l], HostSignature: g.sig()}
		we.roundTripValid(c, lc, resp, fmt.Sprintf("the honest host's %d roots [%d,%d) of a %d-sector contract", l, off, off+l, n), "rhp4.ReadResponse|valid-message-exceeds-maxLen|RPCSectorRootsResponse")
		c.Count("worstcase_real_proofs", 1)
	})
}

func (we *worstEnv) appendCase(c *vf.Ctx, lc limCase) {
	n, k := lc.Sectors, lc.Batch
	t := we.le.byName[lc.Type]
	L := uint64(receiverLimit(t))
	if lc.N != 1 {
		if n+k > maxContractSectors {
			k = maxContractSectors - n
		}
		size := 1 + 8 + k + 8 + 32*uint64(popcount(n)) + 32
		c.Count("worstcase_arithmetic", 1)
		if size > L {
			c.Violate("rhp4.ReadResponse|valid-message-exceeds-maxLen|RPCAppendSectorsResponse", fmt.Sprintf("appending %d sectors to %d: %d bytes > limit %d", k, n, size, L), lc)
			c.Count("worstcase_over_limit", 1)
		} else {
			c.Count("worstcase_within_limit", 1)
		}
		return
	}
	bigLimiter.do(n > 50000, func() {
		g := newGen(c.Seed, "roots")
		roots := g.hashes(int(n))
		appended := g.hashes(int(k))
		req := &rhp4.RPCAppendSectorsRequest{Prices: we.prices, Sectors: appended}
		if err := req.Validate(we.hostKey.PublicKey()); err != nil {
			c.HarnessError("append request invalid: %v", err)
			return
		}
		sub, newRoot := rhp4.BuildAppendProof(roots, appended)
		if len(sub) != popcount(n) {
			c.Violate("rhp4.BuildAppendProof|size-disagrees-with-tree-definition|", fmt.Sprintf("n=%d: %d roots, expected %d", n, len(sub), popcount(n)), lc)
			return
		}
		if !rhp4.VerifyAppendSectorsProof(n, sub, appended, rhp4.MetaRoot(roots), newRoot) {
			c.HarnessError("honest append proof does not verify")
			return
		}
		acc := make([]bool, k)
		for i := range acc {
			acc[i] = true
		}
		resp := &rhp4.RPCAppendSectorsResponse{Accepted: acc, SubtreeRoots: sub, NewMerkleRoot: newRoot}
		we.roundTripValid(c, lc, resp, fmt.Sprintf("the honest host's answer to appending %d sectors to a %d-sector contract", k, n), "rhp4.ReadResponse|valid-message-exceeds-maxLen|RPCAppendSectorsResponse")
		c.Count("worstcase_real_proofs", 1)
	})
}

func (we *worstEnv) sectorProofCase(c *vf.Ctx, lc limCase) {
	bigLimiter.do(true, func() {
		g := newGen(c.Seed, "sector")
		var sector [rhp4.SectorSize]byte
		g.fill(sector[:])
		cache := rhp4.CachedSectorSubtrees(&sector)
		root := rhp4.SectorRoot(&sector)
		type rng struct{ s, e uint64 }
		var ranges []rng
		if lc.Type == "RPCVerifySectorResponse" {
			for _, i := range []uint64{0, 1, 63, 64, 32767, 32768, 65534, 65535} {
				ranges = append(ranges, rng{i, i + 1})
			}
		} else {
			ranges = []rng{{0, 1}, {32767, 32769}, {1, 65535}, {0, 65536}, {21845, 43691}, {16383, 49153}}
		}
		for _, r := range ranges {
			ss, se := rhp4.SectorSubtreeRange(r.s, r.e)
			proof := rhp4.BuildSectorProof(sector[ss*rhp4.LeafSize:se*rhp4.LeafSize], r.s, r.e, cache)
			if uint64(len(proof)) != refRangeProofSize(rhp4.LeavesPerSector, r.s, r.e) {
				c.Violate("rhp4.BuildSectorProof|size-disagrees-with-tree-definition|", fmt.Sprintf("[%d,%d): built %d, reference %d", r.s, r.e, len(proof), refRangeProofSize(rhp4.LeavesPerSector, r.s, r.e)), lc)
				continue
			}
			if lc.Type == "RPCVerifySectorResponse" {
				var leaf [64]byte
				copy(leaf[:], sector[r.s*64:])
				if !rhp4.VerifyLeafProof(proof, leaf, r.s, root) {
					c.HarnessError("honest leaf proof does not verify")
				}
				we.roundTripValid(c, lc, &rhp4.RPCVerifySectorResponse{Proof: proof, Leaf: leaf}, fmt.Sprintf("leaf proof for leaf %d", r.s), "rhp4.ReadResponse|valid-message-exceeds-maxLen|RPCVerifySectorResponse")
			} else {
				req := &rhp4.RPCReadSectorRequest{Prices: we.prices, Offset: r.s * 64, Length: (r.e - r.s) * 64}
				_ = req // Validate also needs a signed token bound to wall-clock time; the range constraints are re-stated here
				if req.Length == 0 || req.Offset+req.Length > rhp4.SectorSize || (req.Offset+req.Length)%rhp4.LeafSize != 0 {
					c.HarnessError("read range outside the protocol's constraints")
				}
				we.roundTripValid(c, lc, &rhp4.RPCReadSectorResponse{Proof: proof, DataLength: req.Length}, fmt.Sprintf("range proof for leaves [%d,%d)", r.s, r.e), "rhp4.ReadResponse|valid-message-exceeds-maxLen|RPCReadSectorResponse")
			}
			c.Count("worstcase_real_proofs", 1)
		}
	})
}

// minimalFreeSectorsOverflow finds, for the alternating pattern with a full
// batch, the smallest contract whose honest response no longer fits.
func (we *worstEnv) minimalFreeSectorsOverflow(c *vf.Ctx) {
	k := uint64(rhp4.MaxSectorBatchSize)
	L := uint64(receiverLimit(we.le.byName["RPCFreeSectorsResponse"]))
	over := func(n uint64) bool {
		tree, leaf := refDiffProofSize(freeChanged(freePattern("alternating", n, k), n), n)
		return freeRespSize(tree, leaf) > L
	}
	lo, hi := k, 3*k
	if over(lo) || !over(hi) {
		c.Set("free_sectors_minimal_overflow", "not bracketed by [k,3k]")
		return
	}
	for hi-lo > 1 {
		mid := lo + (hi-lo)/2
		if over(mid) {
			hi = mid
		} else {
			lo = mid
		}
	}
	tree, leaf := refDiffProofSize(freeChanged(freePattern("alternating", hi, k), hi), hi)
	c.Set("free_sectors_minimal_overflow", map[string]any{
		"pattern": "alternating", "batch": k, "smallest_contract_sectors_that_overflows": hi, "contract_bytes": hi * rhp4.SectorSize,
		"subtree_hashes": tree, "leaf_hashes": leaf, "response_bytes": freeRespSize(tree, leaf), "receiver_limit": L,
		"largest_contract_that_fits": lo, "assumes": "monotone in the contract size between k and 3k (bracket verified at both ends)",
	})
}
