package c19

import (
	"encoding/binary"
	"io"
	"net"
	"runtime"
	"sync"
	"time"
)

// An in-memory full-duplex connection with unbounded buffering (writers never
// block), half-close, byte recording and a built-in man-in-the-middle that
// applies exactly one fault to one direction at an absolute byte offset.
//
// Semantics (TCP-like): Close() on one end makes local reads/writes fail,
// lets the peer drain what was already delivered and then see io.EOF, and
// makes peer writes fail. CloseWrite() is a half close.

// fault kinds
const (
	faultNone  = ""
	faultFlip  = "flip"  // XOR byte at Off with Mask
	faultTrunc = "trunc" // deliver exactly Off bytes of the direction, then close both directions
	faultSet8  = "set8"  // replace the 8 bytes at Off with little-endian Val
)

// A fault is one tamper action on one direction of a duplex connection.
type fault struct {
	Kind string `json:"kind,omitempty"`
	Dir  int    `json:"dir"` // 0: A->B (dialer/renter -> accepter/host), 1: B->A
	Off  int64  `json:"off"`
	Mask byte   `json:"mask,omitempty"`
	Val  uint64 `json:"val,omitempty"`
}

type half struct {
	mu       sync.Mutex
	waiting  bool  // a registered session goroutine waits here with an empty buffer
	consumed int64 // bytes handed to the reader
	cond    *sync.Cond
	buf     []byte
	wclosed bool // no more data will arrive (EOF after drain)
	rclosed bool // reader went away: writes fail
	total   int64
	f       *fault
	applied bool
	rec     []byte  // original (pre-fault) bytes
	bounds  []int64 // end offset of every Write call
	d       *duplex
}

type duplex struct {
	h [2]*half // h[0]: A->B, h[1]: B->A

	// quiescence detector: when every registered session goroutine that is
	// still alive waits in a pipe read with an empty buffer, nobody can ever
	// write again; the connection is then closed in both directions. This is
	// the deterministic stand-in for the I/O timeout a real peer would hit.
	qmu        sync.Mutex
	registered map[int64]bool
	active     int
	blocked    int
	deadlocks  int
}

// goid returns the current goroutine's id (parsed from the stack header).
func goid() int64 {
	var buf [64]byte
	n := runtime.Stack(buf[:], false)
	// "goroutine 123 [running]:"
	var id int64
	for _, c := range buf[len("goroutine "):n] {
		if c < '0' || c > '9' {
			break
		}
		id = id*10 + int64(c-'0')
	}
	return id
}

// enter registers the calling goroutine as a session goroutine.
func (d *duplex) enter() {
	d.qmu.Lock()
	if d.registered == nil {
		d.registered = map[int64]bool{}
	}
	d.registered[goid()] = true
	d.qmu.Unlock()
}

// expect declares, before they are started, how many session goroutines will
// enter (so that the first one to block is not mistaken for a deadlock).
func (d *duplex) expect(n int) {
	d.qmu.Lock()
	d.active += n
	d.qmu.Unlock()
}

// leave unregisters the calling goroutine.
func (d *duplex) leave() {
	d.qmu.Lock()
	delete(d.registered, goid())
	d.active--
	dead := d.active > 0 && d.blocked >= d.active
	if dead {
		d.deadlocks++
	}
	d.qmu.Unlock()
	if dead {
		d.killAll()
	}
}

func (d *duplex) isRegistered() bool {
	d.qmu.Lock()
	defer d.qmu.Unlock()
	return d.registered[goid()]
}

// markBlocked notes one more waiting session goroutine; it reports a deadlock.
func (d *duplex) markBlocked() bool {
	d.qmu.Lock()
	defer d.qmu.Unlock()
	d.blocked++
	if d.blocked >= d.active {
		d.deadlocks++
		return true
	}
	return false
}

func (d *duplex) unmarkBlocked() {
	d.qmu.Lock()
	d.blocked--
	d.qmu.Unlock()
}

func (d *duplex) deadlocked() int {
	d.qmu.Lock()
	defer d.qmu.Unlock()
	return d.deadlocks
}

type pconn struct {
	d    *duplex
	side int // 0 = A, 1 = B
}

type paddr string

func (a paddr) Network() string { return "tcp" }
func (a paddr) String() string  { return string(a) }

// newDuplex returns the two ends of a fresh connection. f may be nil.
func newDuplex(f *fault) (*pconn, *pconn, *duplex) {
	d := &duplex{}
	for i := range d.h {
		h := &half{d: d}
		h.cond = sync.NewCond(&h.mu)
		d.h[i] = h
	}
	if f != nil && f.Kind != faultNone {
		d.h[f.Dir].f = f
	}
	return &pconn{d, 0}, &pconn{d, 1}, d
}

// killAll closes both directions completely (used by truncation and by the watchdog).
func (d *duplex) killAll() {
	for _, h := range d.h {
		h.mu.Lock()
		h.wclosed = true
		h.rclosed = true
		h.wake()
		h.mu.Unlock()
	}
}

// faultApplied reports whether the configured fault was actually injected.
func (d *duplex) faultApplied() bool {
	for _, h := range d.h {
		h.mu.Lock()
		a := h.applied
		h.mu.Unlock()
		if a {
			return true
		}
	}
	return false
}

// consumedBytes returns the number of bytes the reader of direction dir has taken.
func (d *duplex) consumedBytes(dir int) int64 {
	h := d.h[dir]
	h.mu.Lock()
	defer h.mu.Unlock()
	return h.consumed
}

// sent returns the number of bytes the sender of direction dir has written.
func (d *duplex) sent(dir int) int64 {
	h := d.h[dir]
	h.mu.Lock()
	defer h.mu.Unlock()
	return h.total
}

// record returns a copy of the original bytes of a direction and the write boundaries.
func (d *duplex) record(dir int) ([]byte, []int64) {
	h := d.h[dir]
	h.mu.Lock()
	defer h.mu.Unlock()
	return append([]byte(nil), h.rec...), append([]int64(nil), h.bounds...)
}

func (h *half) write(p []byte) (int, error) {
	h.mu.Lock()
	if h.wclosed || h.rclosed {
		h.mu.Unlock()
		return 0, io.ErrClosedPipe
	}
	start := h.total
	h.total += int64(len(p))
	h.rec = append(h.rec, p...)
	h.bounds = append(h.bounds, h.total)
	out := p
	kill := false
	if f := h.f; f != nil {
		switch f.Kind {
		case faultFlip:
			if f.Off >= start && f.Off < h.total {
				out = append([]byte(nil), p...)
				out[f.Off-start] ^= f.Mask
				h.applied = true
			}
		case faultSet8:
			var v [8]byte
			binary.LittleEndian.PutUint64(v[:], f.Val)
			for i := int64(0); i < 8; i++ {
				o := f.Off + i
				if o >= start && o < h.total {
					if &out[0] == &p[0] {
						out = append([]byte(nil), p...)
					}
					out[o-start] = v[i]
					h.applied = true
				}
			}
		case faultTrunc:
			if f.Off < h.total {
				keep := f.Off - start
				if keep < 0 {
					keep = 0
				}
				out = p[:keep]
				h.applied = true
				kill = true
			}
		}
	}
	h.buf = append(h.buf, out...)
	if len(out) > 0 {
		h.wake()
	}
	h.mu.Unlock()
	if kill {
		// the reader may still drain what was delivered; everything else is gone
		for _, o := range h.d.h {
			o.mu.Lock()
			o.wclosed = true
			if o != h {
				o.rclosed = true
			}
			o.wake()
			o.mu.Unlock()
		}
		// the sender is told the write succeeded (a MITM dropping bytes is invisible to it)
	}
	return len(p), nil
}

func (h *half) read(p []byte) (int, error) {
	h.mu.Lock()
	defer h.mu.Unlock()
	reg, known := false, false
	for len(h.buf) == 0 && !h.wclosed && !h.rclosed {
		if !known {
			// only look up the goroutine identity when the read has to wait
			h.mu.Unlock()
			reg, known = h.d.isRegistered(), true
			h.mu.Lock()
			continue
		}
		if reg && !h.waiting {
			h.waiting = true
			if h.d.markBlocked() {
				// every live session goroutine is waiting: nothing can arrive any more
				h.mu.Unlock()
				h.d.killAll()
				h.mu.Lock()
				continue
			}
		}
		h.cond.Wait()
	}
	if h.waiting {
		h.waiting = false
		h.d.unmarkBlocked()
	}
	if h.rclosed {
		return 0, io.ErrClosedPipe
	}
	if len(h.buf) == 0 {
		return 0, io.EOF
	}
	n := copy(p, h.buf)
	h.consumed += int64(n)
	h.buf = h.buf[n:]
	if len(h.buf) == 0 {
		h.buf = nil
	}
	return n, nil
}

func (c *pconn) out() *half { return c.d.h[c.side] }
func (c *pconn) in() *half  { return c.d.h[1-c.side] }

func (c *pconn) Read(p []byte) (int, error) {
	if len(p) == 0 {
		return 0, nil
	}
	return c.in().read(p)
}
func (c *pconn) Write(p []byte) (int, error) {
	if len(p) == 0 {
		return 0, nil
	}
	return c.out().write(p)
}

// CloseWrite half-closes: the peer sees EOF after draining.
func (c *pconn) CloseWrite() {
	h := c.out()
	h.mu.Lock()
	h.wclosed = true
	h.wake()
	h.mu.Unlock()
}

// wake releases a waiting reader (h.mu held). The waiter is un-counted right
// away so that it is not mistaken for a blocked goroutine before it runs.
func (h *half) wake() {
	if h.waiting {
		h.waiting = false
		h.d.unmarkBlocked()
	}
	h.cond.Broadcast()
}

func (c *pconn) Close() error {
	c.CloseWrite()
	h := c.in()
	h.mu.Lock()
	h.rclosed = true
	h.buf = nil
	h.wake()
	h.mu.Unlock()
	return nil
}

func (c *pconn) LocalAddr() net.Addr {
	if c.side == 0 {
		return paddr("10.0.0.1:40001")
	}
	return paddr("10.0.0.2:9981")
}
func (c *pconn) RemoteAddr() net.Addr {
	if c.side == 0 {
		return paddr("10.0.0.2:9981")
	}
	return paddr("10.0.0.1:40001")
}
func (c *pconn) SetDeadline(time.Time) error      { return nil }
func (c *pconn) SetReadDeadline(time.Time) error  { return nil }
func (c *pconn) SetWriteDeadline(time.Time) error { return nil }

var _ net.Conn = (*pconn)(nil)

// endlessReader serves a frame and then an endless run of 0xFF bytes, counting
// every byte handed out, so that an over-read is observable.
type endlessReader struct {
	frame    []byte
	consumed int64
	finite   bool // if set, io.EOF follows the frame instead of 0xFF
}

func (r *endlessReader) Read(p []byte) (int, error) {
	if len(p) == 0 {
		return 0, nil
	}
	if r.consumed < int64(len(r.frame)) {
		n := copy(p, r.frame[r.consumed:])
		r.consumed += int64(n)
		return n, nil
	}
	if r.finite {
		return 0, io.EOF
	}
	for i := range p {
		p[i] = 0xFF
	}
	r.consumed += int64(len(p))
	return len(p), nil
}
