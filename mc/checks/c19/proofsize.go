package c19

import "sort"

// Independent, deliberately naive proof-size arithmetic for the Sia sector
// Merkle tree (left subtree = largest power of two strictly below the leaf
// count). Written from the tree definition, without bit tricks, so that it can
// be compared with rhp/v2 RangeProofSize / DiffProofSize and with the lengths
// of really built proofs.

func largestPow2Below(n uint64) uint64 {
	p := uint64(1)
	for p*2 < n {
		p *= 2
	}
	return p
}

// refRangeProofSize counts the subtree hashes needed to prove leaves
// [start,end) of a tree with n leaves.
func refRangeProofSize(n, start, end uint64) uint64 {
	var rec func(lo, hi uint64) uint64
	rec = func(lo, hi uint64) uint64 {
		if lo >= start && hi <= end {
			return 0 // fully inside the proven range
		}
		if hi <= start || lo >= end {
			return 1 // fully outside: one hash
		}
		mid := lo + largestPow2Below(hi-lo)
		return rec(lo, mid) + rec(mid, hi)
	}
	if n == 0 || start >= end {
		return 0
	}
	return rec(0, n)
}

// refDiffProofSize counts (tree hashes, leaf hashes) of a diff proof for the
// sorted, duplicate-free set of changed leaf indices of a tree with n leaves.
func refDiffProofSize(changed []uint64, n uint64) (tree, leaf uint64) {
	anyIn := func(lo, hi uint64) bool {
		i := sort.Search(len(changed), func(i int) bool { return changed[i] >= lo })
		return i < len(changed) && changed[i] < hi
	}
	var rec func(lo, hi uint64)
	rec = func(lo, hi uint64) {
		if !anyIn(lo, hi) {
			tree++
			return
		}
		if hi-lo == 1 {
			leaf++
			return
		}
		mid := lo + largestPow2Below(hi-lo)
		rec(lo, mid)
		rec(mid, hi)
	}
	if n > 0 {
		rec(0, n)
	}
	return
}

// freeChanged returns the sorted changed set of a free-sectors operation:
// the freed indices plus the last len(freed) sectors (swap targets, trimmed).
func freeChanged(freed []uint64, n uint64) []uint64 {
	set := make(map[uint64]struct{}, 2*len(freed))
	for _, f := range freed {
		set[f] = struct{}{}
	}
	for i := uint64(0); i < uint64(len(freed)); i++ {
		set[n-1-i] = struct{}{}
	}
	out := make([]uint64, 0, len(set))
	for v := range set {
		out = append(out, v)
	}
	sort.Slice(out, func(i, j int) bool { return out[i] < out[j] })
	return out
}

// freed-index pattern families (C16 families + a sparse one).
var freeFamilies = []string{"all", "alternating", "first_half", "last", "stride"}

// freePattern returns the indices freed by family fam on a contract of n
// sectors with a batch of at most k indices (always valid per
// RPCFreeSectorsRequest.Validate: < n, distinct, <= k many).
func freePattern(fam string, n, k uint64) []uint64 {
	if k > n {
		k = n
	}
	var out []uint64
	switch fam {
	case "all": // the first k sectors (all of them when n == k)
		for i := uint64(0); i < k; i++ {
			out = append(out, i)
		}
	case "alternating":
		for i := uint64(0); i < k && 2*i < n; i++ {
			out = append(out, 2*i)
		}
	case "first_half":
		m := n / 2
		if m > k {
			m = k
		}
		for i := uint64(0); i < m; i++ {
			out = append(out, i)
		}
	case "last":
		for i := uint64(0); i < k; i++ {
			out = append(out, n-k+i)
		}
	case "stride": // one index per block of size s, at an odd offset
		if n < 2*k || k == 0 {
			return freePattern("alternating", n, k)
		}
		s := (n - k) / k
		if s < 2 {
			return freePattern("alternating", n, k)
		}
		for i := uint64(0); i < k; i++ {
			out = append(out, i*s+1)
		}
	}
	return out
}
