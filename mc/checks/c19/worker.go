package c19

import (
	"bufio"
	"encoding/json"
	"fmt"
	"os"
	"os/exec"
	"strings"
	"syscall"

	"verifmc/vf"
)

// The hostile-length-prefix phase runs in a worker subprocess with an
// address-space limit, so that a decoder that allocates from an unchecked
// length kills the worker (reported as a violation with the case that was
// running) instead of taking the harness or the machine down.

const workerEnv = "C19_WORKER"
const workerASLimit = 12 << 30

// hreporter is what runHostile needs from a run context; in the worker it is
// a recorder whose content is shipped to the parent.
type hreporter interface {
	Count(name string, n int64)
	Violate(sig, desc string, cs any)
	Distinct(desc ...any)
	HarnessError(format string, a ...any)
}

type wViolation struct {
	Sig  string  `json:"sig"`
	Desc string  `json:"desc"`
	Case limCase `json:"case"`
}

type workerOut struct {
	Counters   map[string]int64 `json:"counters"`
	Violations []wViolation     `json:"violations"`
	Harness    []string         `json:"harness"`
	DistinctK  [][]string       `json:"distinct"`
}

func (w *workerOut) Count(name string, n int64) { w.Counters[name] += n }
func (w *workerOut) Violate(sig, desc string, cs any) {
	lc, _ := cs.(limCase)
	w.Violations = append(w.Violations, wViolation{sig, desc, lc})
}
func (w *workerOut) Distinct(desc ...any) {
	var ss []string
	for _, d := range desc {
		ss = append(ss, fmt.Sprintf("%v", d))
	}
	w.DistinctK = append(w.DistinctK, ss)
}
func (w *workerOut) HarnessError(format string, a ...any) {
	w.Harness = append(w.Harness, fmt.Sprintf(format, a...))
}

// workerMain is the body of the subprocess. It never returns.
func workerMain(c *vf.Ctx) {
	syscall.Setrlimit(syscall.RLIMIT_AS, &syscall.Rlimit{Cur: workerASLimit, Max: workerASLimit})
	e := setup(c)
	w := bufio.NewWriter(os.Stdout)
	out := &workerOut{Counters: map[string]int64{}}
	for i, lc := range e.le.enumerateHostile(c) {
		fmt.Fprintf(w, "BEGIN %d\n", i)
		w.Flush()
		e.le.runHostile(out, c.Seed, lc)
	}
	b, _ := json.Marshal(out)
	fmt.Fprintf(w, "RESULT %s\n", b)
	w.Flush()
	os.Exit(0)
}

// runHostileInWorker executes the hostile phase in a subprocess and merges its results.
func (le *limitsEnv) runHostileInWorker(c *vf.Ctx, cases []limCase) {
	cmd := exec.Command(os.Args[0], "C19", c.Tier)
	cmd.Env = append(os.Environ(), workerEnv+"=hostile", "VERIF_NO_EVIDENCE=1", fmt.Sprintf("VERIF_SEED=%d", c.Seed))
	var errb strings.Builder
	cmd.Stderr = &errb
	stdout, err := cmd.StdoutPipe()
	if err != nil {
		c.HarnessError("cannot start hostile-prefix worker: %v", err)
		return
	}
	if err := cmd.Start(); err != nil {
		c.HarnessError("cannot start hostile-prefix worker: %v", err)
		return
	}
	last := -1
	got := false
	sc := bufio.NewScanner(stdout)
	sc.Buffer(make([]byte, 1<<20), 256<<20)
	for sc.Scan() {
		line := sc.Text()
		switch {
		case strings.HasPrefix(line, "BEGIN "):
			fmt.Sscanf(line, "BEGIN %d", &last)
		case strings.HasPrefix(line, "RESULT "):
			var out workerOut
			if err := json.Unmarshal([]byte(line[len("RESULT "):]), &out); err != nil {
				c.HarnessError("bad worker result: %v", err)
				break
			}
			for k, v := range out.Counters {
				c.Count(k, v)
			}
			for _, v := range out.Violations {
				c.Violate(v.Sig, v.Desc, v.Case)
			}
			for _, h := range out.Harness {
				c.HarnessError("%s", h)
			}
			for _, d := range out.DistinctK {
				as := make([]any, len(d))
				for i := range d {
					as[i] = d[i]
				}
				c.Distinct(as...)
			}
			got = true
		}
	}
	werr := cmd.Wait()
	if got && werr == nil {
		return
	}
	if last >= 0 && last < len(cases) {
		lc := cases[last]
		tail := errb.String()
		if len(tail) > 600 {
			tail = tail[:600]
		}
		c.Violate(lc.Proto+".Read"+roleTitle(lc.Role)+"|process-killed-by-hostile-length|"+lc.Type+"."+lc.DimName,
			fmt.Sprintf("the decoder worker (address space limited to %d GiB) died while reading %s %s with the length prefix of %s replaced by %d: %v\n%s", workerASLimit>>30, lc.Type, lc.Role, lc.DimName, lc.Val, werr, tail), lc)
		return
	}
	c.HarnessError("hostile-prefix worker failed before its first case: %v\n%s", werr, errb.String())
}
