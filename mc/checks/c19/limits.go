package c19

import (
	"bytes"
	"encoding/binary"
	"errors"
	"fmt"
	"os"
	"path/filepath"
	"reflect"
	"regexp"
	"runtime"
	"sort"

	rhp4 "go.sia.tech/core/rhp/v4"
	"verifmc/vf"
)

// limCase is the replayable descriptor of one family-A/B case.
type limCase struct {
	Family  string `json:"family"` // "limits" | "hostile" | "errors" | "worstcase"
	Proto   string `json:"proto"`  // "rhp4" | "gateway"
	Type    string `json:"type"`
	Role    string `json:"role,omitempty"` // request | response
	Dim     int    `json:"dim"`
	DimName string `json:"dim_name,omitempty"`
	N       int    `json:"n"`
	Joint   bool   `json:"joint,omitempty"` // every protocol dimension at its maximum simultaneously
	Val     uint64 `json:"val,omitempty"`   // hostile prefix value
	Endless bool   `json:"endless,omitempty"`
	Code    uint8  `json:"code,omitempty"`
	DescLen int    `json:"desc_len,omitempty"`
	ErrName string `json:"err_name,omitempty"`
	Pattern string `json:"pattern,omitempty"`
	Sectors uint64 `json:"sectors,omitempty"`
	Batch   uint64 `json:"batch,omitempty"`
	Max     uint64 `json:"max,omitempty"` // gateway: the Max field of the request that sizes the response limit
}

const bigObject = 2 << 20 // cases above this encoded size go through the limiter

var bigLimiter = newLimiter(3)

var hostileValues = []uint64{0, 1, 1 << 31, 1 << 32, 1 << 40, 1 << 62, 1 << 63, ^uint64(0)}

// crossCheckTable greps the package sources for implementations of the given
// method and compares the receiver type names with the table.
func crossCheckTable(c *vf.Ctx, pkgDir, method string, have []string, ignore map[string]bool) int {
	repo := os.Getenv("VERIF_REPO")
	if repo == "" {
		repo = "/repo"
	}
	files, _ := filepath.Glob(filepath.Join(repo, pkgDir, "*.go"))
	re := regexp.MustCompile(`(?m)^func \((?:\w+ )?\*?(\w+)\) ` + method + `\(\) int`)
	found := map[string]bool{}
	for _, f := range files {
		if len(f) > 8 && f[len(f)-8:] == "_test.go" {
			continue
		}
		b, err := os.ReadFile(f)
		if err != nil {
			c.HarnessError("cannot read %s: %v", f, err)
			continue
		}
		for _, m := range re.FindAllStringSubmatch(string(b), -1) {
			if !ignore[m[1]] {
				found[m[1]] = true
			}
		}
	}
	hv := map[string]bool{}
	for _, h := range have {
		hv[h] = true
	}
	for f := range found {
		if !hv[f] {
			c.HarnessError("type table drift: %s.%s implements %s() but is not in the C19 table", pkgDir, f, method)
		}
	}
	for h := range hv {
		if !found[h] {
			c.HarnessError("type table drift: %s in the C19 table has no %s() in %s", h, method, pkgDir)
		}
	}
	return len(found)
}

func v4byName(tab []v4type) map[string]*v4type {
	m := map[string]*v4type{}
	for i := range tab {
		m[tab[i].name] = &tab[i]
	}
	return m
}

// codec is the uniform view of one message type of one protocol: how to build
// an instance, write it with the real writer, read it with the real reader and
// what the receiver's limit is.
type codec struct {
	proto string // rhp4 | gateway
	name  string
	role  string // request | response
	max   uint64 // gateway: Max field of the receiving object
	dims  []dim
	limit int // bytes the receiver admits after the fixed framing (RPC ID)
	build func(seed int64, sz []int) any
	write func(obj any) (frame []byte, idLen int, err error)
	read  func(r *endlessReader) (any, error)
}

func (cd *codec) key() string {
	if cd.max != 0 {
		return fmt.Sprintf("%s.%s/%s/max=%d", cd.proto, cd.name, cd.role, cd.max)
	}
	return fmt.Sprintf("%s.%s/%s", cd.proto, cd.name, cd.role)
}

func (cd *codec) entry() string { return cd.proto + ".Read" + roleTitle(cd.role) }

// receiverLimit is the number of bytes the receiver admits for one message of
// this type after the RPC ID: maxLen for requests, 1024 + maxLen for responses
// (transport.go ReadResponse).
func receiverLimit(t *v4type) int {
	l := rhp4.VerifMaxLen(t.fresh())
	if t.resp {
		l += rhp4.VerifMaxLen(new(rhp4.RPCError))
	}
	return l
}

func v4codec(t *v4type) *codec {
	role := "request"
	if t.resp {
		role = "response"
	}
	return &codec{proto: "rhp4", name: t.name, role: role, dims: t.dims, limit: receiverLimit(t),
		build: func(seed int64, sz []int) any { return t.build(newGen(seed, t.name), sz) },
		write: func(obj any) ([]byte, int, error) {
			var buf bytes.Buffer
			if t.resp {
				err := rhp4.WriteResponse(&buf, obj.(rhp4.Object))
				return buf.Bytes(), 0, err
			}
			err := rhp4.WriteRequest(&buf, t.id, obj.(rhp4.Object))
			return buf.Bytes(), 16, err
		},
		read: func(r *endlessReader) (any, error) {
			o := t.fresh()
			if !t.resp {
				id, err := rhp4.ReadID(r)
				if err != nil {
					return o, fmt.Errorf("ReadID: %w", err)
				}
				if id != t.id {
					return o, fmt.Errorf("ReadID returned %v, want %v", id, t.id)
				}
				return o, rhp4.ReadRequest(r, o)
			}
			return o, rhp4.ReadResponse(r, o)
		}}
}

// affine returns a, b such that the encoded size of cd with dimension d at n
// (others 0) is a + b*n, or ok=false if the size is not affine in n.
func affine(cd *codec, seed int64, d int) (a, b int, ok bool) {
	size := func(n int) int {
		sz := make([]int, len(cd.dims))
		sz[d] = n
		f, id, _ := cd.write(cd.build(seed, sz))
		return len(f) - id
	}
	s0, s1, s2, s5 := size(0), size(1), size(2), size(5)
	if s1-s0 != s2-s1 || s5-s0 != 5*(s1-s0) || s1 <= s0 {
		return 0, 0, false
	}
	return s0, s1 - s0, true
}

// dimSizes returns the menu of sizes for one dimension.
func dimSizes(c *vf.Ctx, cd *codec, d int, nfit int) []int {
	set := map[int]bool{0: true, 1: true, 2: true}
	add := func(n int) {
		if n >= 0 {
			set[n] = true
		}
	}
	add(nfit - 1)
	add(nfit)
	add(nfit + 1)
	dm := cd.dims[d]
	if dm.kind == kindProtocol {
		add(dm.pmax - 1)
		add(dm.pmax)
		add(dm.pmax + 1)
	}
	if !c.Quick() {
		top := nfit + 1
		for p := 4; p <= top; p *= 2 {
			add(p - 1)
			add(p)
			add(p + 1)
		}
		add(nfit + nfit/2)
		add(nfit + 1000)
	}
	var out []int
	for n := range set {
		out = append(out, n)
	}
	sort.Ints(out)
	return out
}

type limitsEnv struct {
	tab    []v4type
	byName map[string]*v4type
	codecs map[string]*codec
	order  []string
	hist   histogram
}

func (le *limitsEnv) addCodec(cd *codec) {
	if le.codecs == nil {
		le.codecs = map[string]*codec{}
	}
	le.codecs[cd.key()] = cd
	le.order = append(le.order, cd.key())
}

func (le *limitsEnv) lookup(lc limCase) *codec {
	k := fmt.Sprintf("%s.%s/%s", lc.Proto, lc.Type, lc.Role)
	if lc.Max != 0 {
		k += fmt.Sprintf("/max=%d", lc.Max)
	}
	return le.codecs[k]
}

// enumerateLimits lists all family-A size cases.
func (le *limitsEnv) enumerateLimits(c *vf.Ctx) []limCase {
	var cases []limCase
	dimInfo := map[string]any{}
	for _, key := range le.order {
		cd := le.codecs[key]
		base := limCase{Family: "limits", Proto: cd.proto, Type: cd.name, Role: cd.role, Max: cd.max}
		if len(cd.dims) == 0 {
			b := base
			b.Dim = -1
			cases = append(cases, b)
			continue
		}
		for d := range cd.dims {
			a, b, ok := affine(cd, c.Seed, d)
			if !ok {
				c.HarnessError("size of %s is not affine in %s", key, cd.dims[d].name)
				continue
			}
			nfit := (cd.limit - a) / b
			if cd.limit < a {
				nfit = -1
			}
			info := map[string]any{"kind": cd.dims[d].kind, "receiver_limit": cd.limit, "size_at_0": a, "per_item": b, "largest_fitting": nfit}
			if cd.dims[d].kind == kindProtocol {
				info["protocol_max"] = cd.dims[d].pmax
				info["source"] = cd.dims[d].why
			}
			dimInfo[key+"."+cd.dims[d].name] = info
			for _, n := range dimSizes(c, cd, d, nfit) {
				lc := base
				lc.Dim, lc.DimName, lc.N = d, cd.dims[d].name, n
				cases = append(cases, lc)
			}
		}
		np := 0
		for _, dm := range cd.dims {
			if dm.kind == kindProtocol {
				np++
			}
		}
		if np >= 2 {
			lc := base
			lc.Dim, lc.Joint = -1, true
			cases = append(cases, lc)
		}
	}
	c.Set("dimensions", dimInfo)
	return cases
}

// runLimit executes one family-A case: write with the real writer, read back
// with the real reader from a byte-counting endless reader.
func (le *limitsEnv) runLimit(c *vf.Ctx, lc limCase) {
	cd := le.lookup(lc)
	if cd == nil {
		c.HarnessError("unknown message type %s.%s/%s", lc.Proto, lc.Type, lc.Role)
		return
	}
	sz := make([]int, len(cd.dims))
	protocolValid := true
	if lc.Joint {
		for d, dm := range cd.dims {
			if dm.kind == kindProtocol {
				sz[d] = dm.pmax
			}
		}
	} else if lc.Dim >= 0 {
		sz[lc.Dim] = lc.N
		dm := cd.dims[lc.Dim]
		protocolValid = dm.kind == kindProtocol && lc.N <= dm.pmax
	}
	L := cd.limit
	sent := cd.build(c.Seed, sz)
	frame, idLen, werr := cd.write(sent)
	if werr != nil {
		c.HarnessError("write of %s failed: %v", lc.Type, werr)
		return
	}
	body := len(frame) - idLen
	fits := body <= L
	ent := cd.entry()
	bigLimiter.do(len(frame) > bigObject, func() {
		er := &endlessReader{frame: frame}
		var got any
		var rerr error
		if p, st := vf.Try(func() { got, rerr = cd.read(er) }); p != nil {
			c.Violate(ent+"|panic|"+lc.Type, fmt.Sprintf("panic while reading %s: %v\n%s", lc.Type, p, st), lc)
			return
		}
		c.Count("evaluations", 1)
		c.Count("limits_"+lc.Proto+"_cases", 1)
		who := fmt.Sprintf("%s %s %s=%d (encoded %d bytes after the RPC ID, receiver limit %d)", lc.Type, lc.Role, lc.DimName, lc.N, body, L)
		if lc.Joint {
			who = fmt.Sprintf("%s with every protocol dimension at its maximum %v (encoded %d bytes, receiver limit %d)", lc.Type, sz, body, L)
		}
		if er.consumed > int64(idLen+L) {
			c.Violate(ent+"|reads-beyond-limit|"+lc.Type,
				fmt.Sprintf("%s: reader consumed %d bytes > framing %d + limit %d", who, er.consumed, idLen, L), lc)
		}
		if protocolValid && !fits {
			c.Violate(ent+"|valid-message-exceeds-maxLen|"+lc.Type,
				fmt.Sprintf("%s satisfies the protocol's own limit but exceeds the receiver's limit", who), lc)
		}
		switch {
		case fits && rerr != nil:
			c.Violate(ent+"|in-limit-message-rejected|"+lc.Type, fmt.Sprintf("%s: read failed: %v", who, rerr), lc)
		case fits && !equalObj(sent, got):
			c.Violate(ent+"|decoded-object-differs|"+lc.Type, fmt.Sprintf("%s: decoded object differs from the sent one", who), lc)
		case fits && er.consumed != int64(len(frame)):
			c.Violate(ent+"|consumed-differs-from-written|"+lc.Type,
				fmt.Sprintf("%s: writer produced %d bytes but reader consumed %d", who, len(frame), er.consumed), lc)
		case !fits && rerr == nil:
			c.Violate(ent+"|over-limit-message-accepted|"+lc.Type, fmt.Sprintf("%s: over-limit message was read without error", who), lc)
		}
		if fits {
			c.Count("limits_accepted", 1)
		} else {
			c.Count("limits_rejected", 1)
		}
		if lc.Dim >= 0 && lc.N > 2 || lc.Joint {
			c.Distinct("limits", lc.Proto, lc.Type, lc.Role, lc.Max, lc.Dim, lc.N, lc.Joint)
		}
		if protocolValid && (lc.Joint || lc.Dim >= 0 && lc.N == cd.dims[lc.Dim].pmax) {
			c.Count("limits_protocol_max_cases", 1)
		}
	})
}

func roleTitle(r string) string {
	if r == "response" {
		return "Response"
	}
	return "Request"
}

// ---- hostile length prefixes ------------------------------------------------

// prefixOffset locates the 8-byte length prefix of dimension d in the frame of
// an object with that dimension at 2 and all others at 0.
func prefixOffset(cd *codec, seed int64, d int) (frame []byte, off int, idLen int, ok bool) {
	enc := func(n int) ([]byte, int) {
		sz := make([]int, len(cd.dims))
		sz[d] = n
		f, id, _ := cd.write(cd.build(seed, sz))
		return f, id
	}
	f2, id := enc(2)
	f3, _ := enc(3)
	for i := 0; i < len(f2) && i < len(f3); i++ {
		if f2[i] != f3[i] {
			if i+8 <= len(f2) && binary.LittleEndian.Uint64(f2[i:]) <= 16 && binary.LittleEndian.Uint64(f3[i:]) == binary.LittleEndian.Uint64(f2[i:])+1 {
				return f2, i, id, true
			}
			return nil, 0, 0, false
		}
	}
	return nil, 0, 0, false
}

func (le *limitsEnv) enumerateHostile(c *vf.Ctx) []limCase {
	var cases []limCase
	for _, key := range le.order {
		cd := le.codecs[key]
		for d := range cd.dims {
			for _, v := range hostileValues {
				for _, endless := range []bool{false, true} {
					cases = append(cases, limCase{Family: "hostile", Proto: cd.proto, Type: cd.name, Role: cd.role, Max: cd.max, Dim: d, DimName: cd.dims[d].name, N: 2, Val: v, Endless: endless})
				}
			}
		}
		// the description length prefix of an RPCError response, in front of every rhp4 response type
		if cd.proto == "rhp4" && cd.role == "response" {
			for _, v := range hostileValues {
				for _, endless := range []bool{false, true} {
					cases = append(cases, limCase{Family: "hostile", Proto: "rhp4", Type: cd.name, Role: "response", Dim: -2, DimName: "RPCError.Description", N: 2, Val: v, Endless: endless})
				}
			}
		}
	}
	return cases
}

// measureAlloc runs fn on the calling goroutine and returns the TotalAlloc
// delta. Only meaningful while nothing else allocates (sequential phase).
func measureAlloc(fn func()) uint64 {
	var m0, m1 runtime.MemStats
	runtime.ReadMemStats(&m0)
	fn()
	runtime.ReadMemStats(&m1)
	return m1.TotalAlloc - m0.TotalAlloc
}

// runHostile replaces one length prefix by a hostile value. Must run sequentially.
func (le *limitsEnv) runHostile(c hreporter, seed int64, lc limCase) {
	cd := le.lookup(lc)
	if cd == nil {
		c.HarnessError("unknown message type %s.%s/%s", lc.Proto, lc.Type, lc.Role)
		return
	}
	ent := cd.entry()
	var frame []byte
	var off, idLen int
	if lc.Dim == -2 {
		var buf bytes.Buffer
		rhp4.WriteResponse(&buf, &rhp4.RPCError{Code: 3, Description: "ab"})
		frame = buf.Bytes()
		off = 2 // bool, code, then the length prefix
		if binary.LittleEndian.Uint64(frame[off:]) != 2 {
			c.HarnessError("RPCError frame layout changed")
			return
		}
	} else {
		var ok bool
		frame, off, idLen, ok = prefixOffset(cd, seed, lc.Dim)
		if !ok {
			c.HarnessError("cannot locate the length prefix of %s.%s", lc.Type, lc.DimName)
			return
		}
	}
	orig := binary.LittleEndian.Uint64(frame[off:])
	frame = append([]byte(nil), frame...)
	binary.LittleEndian.PutUint64(frame[off:], lc.Val)
	L := cd.limit
	er := &endlessReader{frame: frame, finite: !lc.Endless}
	var rerr error
	var pan any
	var pst string
	alloc := measureAlloc(func() {
		pan, pst = vf.Try(func() { _, rerr = cd.read(er) })
	})
	c.Count("evaluations", 1)
	c.Count("hostile_prefix_cases", 1)
	who := fmt.Sprintf("%s %s with length prefix of %s = %d (was %d), endless=%v", lc.Type, lc.Role, lc.DimName, lc.Val, orig, lc.Endless)
	if pan != nil {
		c.Violate(ent+"|panic-on-hostile-length|"+lc.Type+"."+lc.DimName, fmt.Sprintf("%s: panic %v\n%s", who, pan, pst), lc)
		return
	}
	// allocation bound: 64 MiB + 1024 * bytes the peer actually had to send
	sentBytes := uint64(er.consumed)
	if bound := uint64(64<<20) + 1024*sentBytes; alloc > bound {
		c.Violate(ent+"|alloc-unbounded-on-hostile-length|"+lc.Type+"."+lc.DimName,
			fmt.Sprintf("%s: allocated %d bytes for %d bytes of input (bound %d)", who, alloc, sentBytes, bound), lc)
	}
	if er.consumed > int64(idLen+L) {
		c.Violate(ent+"|reads-beyond-limit|"+lc.Type,
			fmt.Sprintf("%s: reader consumed %d bytes > framing %d + limit %d", who, er.consumed, idLen, L), lc)
	}
	// a prefix larger than anything the limit could hold must be rejected
	if lc.Val > uint64(L) && rerr == nil {
		c.Violate(ent+"|hostile-length-accepted|"+lc.Type+"."+lc.DimName, who+": read returned no error", lc)
	}
	if lc.Dim == -2 && rerr == nil {
		c.Violate("rhp4.ReadResponse|error-response-not-returned-as-error|"+lc.Type, who+": an error response was read as success", lc)
	}
	if rerr != nil {
		c.Count("hostile_rejected", 1)
	} else {
		c.Count("hostile_tolerated_small_prefix", 1)
	}
	c.Distinct("hostile", lc.Proto, lc.Type, lc.Role, lc.Dim, lc.Val, lc.Endless)
}

// ---- family B: error responses ---------------------------------------------

type namedErr struct {
	name string
	err  error
}

// predeclaredErrors lists every exported Err* variable of rhp/v4 (cross-checked
// against errors.go at run time).
func predeclaredErrors() []namedErr {
	return []namedErr{
		{"ErrHostKeyMismatch", rhp4.ErrHostKeyMismatch}, {"ErrTokenExpired", rhp4.ErrTokenExpired},
		{"ErrPricesExpired", rhp4.ErrPricesExpired}, {"ErrInvalidSignature", rhp4.ErrInvalidSignature},
		{"ErrNotEnoughFunds", rhp4.ErrNotEnoughFunds}, {"ErrHostFundError", rhp4.ErrHostFundError},
		{"ErrSectorNotFound", rhp4.ErrSectorNotFound}, {"ErrSectorCorrupt", rhp4.ErrSectorCorrupt},
		{"ErrContractNotFound", rhp4.ErrContractNotFound}, {"ErrNotAcceptingContracts", rhp4.ErrNotAcceptingContracts},
		{"ErrNotEnoughStorage", rhp4.ErrNotEnoughStorage}, {"ErrHostShuttingDown", rhp4.ErrHostShuttingDown},
		{"ErrPoolNotFound", rhp4.ErrPoolNotFound}, {"ErrPoolExpired", rhp4.ErrPoolExpired},
		{"ErrHostInternalError", rhp4.ErrHostInternalError},
	}
}

func crossCheckErrors(c *vf.Ctx, have []namedErr) {
	repo := os.Getenv("VERIF_REPO")
	if repo == "" {
		repo = "/repo"
	}
	b, err := os.ReadFile(filepath.Join(repo, "rhp/v4/errors.go"))
	if err != nil {
		c.HarnessError("cannot read rhp/v4/errors.go: %v", err)
		return
	}
	re := regexp.MustCompile(`(?m)^\s+(Err\w+)\s*=\s*NewRPCError\(`)
	found := map[string]bool{}
	for _, m := range re.FindAllStringSubmatch(string(b), -1) {
		found[m[1]] = true
	}
	hv := map[string]bool{}
	for _, h := range have {
		hv[h.name] = true
	}
	for f := range found {
		if !hv[f] {
			c.HarnessError("error table drift: rhp/v4.%s is not in the C19 table", f)
		}
	}
	for h := range hv {
		if !found[h] {
			c.HarnessError("error table drift: %s not found in rhp/v4/errors.go", h)
		}
	}
	c.Set("rhp4_predeclared_errors", len(found))
}

// maxErrDesc is the longest description that fits the receiver's RPCError
// allowance in front of a response with maxLen 0: bool + code + 8-byte length.
const maxErrDesc = 1024 - 10

func (le *limitsEnv) enumerateErrors(c *vf.Ctx) []limCase {
	var cases []limCase
	for i := range le.tab {
		t := &le.tab[i]
		if !t.resp {
			continue
		}
		for _, ne := range predeclaredErrors() {
			cases = append(cases, limCase{Family: "errors", Proto: "rhp4", Type: t.name, Role: "response", ErrName: ne.name})
		}
		for l := 0; l <= maxErrDesc; l++ {
			cases = append(cases, limCase{Family: "errors", Proto: "rhp4", Type: t.name, Role: "response", Code: uint8(1 + l%6), DescLen: l})
		}
		// every error code with a fixed description
		for code := 0; code < 256; code++ {
			cases = append(cases, limCase{Family: "errors", Proto: "rhp4", Type: t.name, Role: "response", Code: uint8(code), DescLen: 7, ErrName: "code-sweep"})
		}
	}
	return cases
}

func (le *limitsEnv) runError(c *vf.Ctx, lc limCase) {
	t := le.byName[lc.Type]
	if t == nil || !t.resp {
		c.HarnessError("unknown rhp4 response type %q", lc.Type)
		return
	}
	var sent *rhp4.RPCError
	if lc.ErrName != "" && lc.ErrName != "code-sweep" {
		for _, ne := range predeclaredErrors() {
			if ne.name == lc.ErrName {
				if !errors.As(ne.err, &sent) {
					c.Violate("rhp4."+lc.ErrName+"|not-an-RPCError|", "predeclared error is not an *RPCError", lc)
					return
				}
			}
		}
		if sent == nil {
			c.HarnessError("unknown predeclared error %q", lc.ErrName)
			return
		}
	} else {
		sent = &rhp4.RPCError{Code: lc.Code, Description: newGen(c.Seed, "desc").text(lc.DescLen)}
	}
	var buf bytes.Buffer
	if err := rhp4.WriteResponse(&buf, sent); err != nil {
		c.HarnessError("WriteResponse(error) failed: %v", err)
		return
	}
	frame := buf.Bytes()
	L := receiverLimit(t)
	er := &endlessReader{frame: frame}
	o := t.fresh()
	var rerr error
	if p, st := vf.Try(func() { rerr = rhp4.ReadResponse(er, o) }); p != nil {
		c.Violate("rhp4.ReadResponse|panic-on-error-response|"+lc.Type, fmt.Sprintf("panic: %v\n%s", p, st), lc)
		return
	}
	c.Count("evaluations", 1)
	c.Count("error_response_cases", 1)
	who := fmt.Sprintf("RPCError{Code:%d, len(Description)=%d} as the response to %s", sent.Code, len(sent.Description), lc.Type)
	var got *rhp4.RPCError
	switch {
	case rerr == nil:
		c.Violate("rhp4.ReadResponse|error-response-read-as-success|"+lc.Type, who+": ReadResponse returned nil", lc)
	case !errors.As(rerr, &got):
		c.Violate("rhp4.ReadResponse|error-response-not-delivered-as-RPCError|"+lc.Type, fmt.Sprintf("%s: ReadResponse returned %T (%v)", who, rerr, rerr), lc)
	case got.Code != sent.Code:
		c.Violate("rhp4.ReadResponse|error-response-wrong-code|", fmt.Sprintf("%s: delivered with code %d", who, got.Code), lc)
	case got.Description != sent.Description:
		c.Violate("rhp4.ReadResponse|error-response-wrong-description|", fmt.Sprintf("%s: description differs (got %d bytes)", who, len(got.Description)), lc)
	case rhp4.ErrorCode(rerr) != sent.Code:
		c.Violate("rhp4.ErrorCode|wrong-code|", fmt.Sprintf("%s: ErrorCode() = %d", who, rhp4.ErrorCode(rerr)), lc)
	case !errors.Is(rerr, sent):
		c.Violate("rhp4.RPCError.Is|delivered-error-does-not-match-sent|", who+": errors.Is(received, sent) is false", lc)
	case er.consumed != int64(len(frame)):
		c.Violate("rhp4.ReadResponse|consumed-differs-from-written|"+lc.Type, fmt.Sprintf("%s: wrote %d bytes, reader consumed %d", who, len(frame), er.consumed), lc)
	case er.consumed > int64(L):
		c.Violate("rhp4.ReadResponse|reads-beyond-limit|"+lc.Type, fmt.Sprintf("%s: consumed %d > limit %d", who, er.consumed, L), lc)
	default:
		c.Count("error_delivered", 1)
	}
	if !isZeroObj(o) {
		c.Violate("rhp4.ReadResponse|error-response-mutates-object|"+lc.Type, who+": the response object was modified although an error was delivered", lc)
	}
	c.Distinct("errors", lc.Type, sent.Code, len(sent.Description), lc.ErrName)
}

func isZeroObj(o rhp4.Object) bool {
	return equalObj(o, reflect.New(reflect.TypeOf(o).Elem()).Interface())
}
