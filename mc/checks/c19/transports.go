package c19

import (
	"reflect"
	"errors"
	"fmt"
	"io"
	"sync"
	"time"

	"go.sia.tech/core/gateway"
	rhp2 "go.sia.tech/core/rhp/v2"
	rhp3 "go.sia.tech/core/rhp/v3"
	"go.sia.tech/core/types"
	"verifmc/vf"
)

// ---- case descriptor ----------------------------------------------------------

type tCase struct {
	Family    string `json:"family"`    // sequence | handshake | tamper | tlimit
	Transport string `json:"transport"` // gateway | rhp3 | rhp2
	Mode      string `json:"mode,omitempty"` // rhp2: "read" (ReadResponse) or "raw" (RawResponse + VerifyTag)
	Seq       []int  `json:"seq,omitempty"`
	Fault     *fault `json:"fault,omitempty"`
	Mismatch  string `json:"mismatch,omitempty"` // genesis | unique | both | none
	Side      string `json:"side,omitempty"`     // which real implementation is under test: dialer | accepter | both
	MaxLen    uint64 `json:"max_len,omitempty"`
	Over      int    `json:"over,omitempty"` // tlimit: object size relative to the largest fitting one
	Dir       string `json:"dir,omitempty"`  // tlimit: request | response
	BlobLen   int    `json:"blob_len,omitempty"`
}

// the six message shapes
const (
	shTiny = iota
	shPadded
	shJustOver
	shMultiKiB
	shError
	shEmpty
	numShapes
	shBigReq   = 102 // gateway only: an RPC whose request spans three mux packets
	shReadResp = 101 // rhp2 only: an RPCReadResponse (the response RawResponse exists for)
	shBlob     = 100 // tlimit family: a blob of tc.BlobLen bytes in direction tc.Dir (tiny in the other direction)
)

var shapeNames = []string{"tiny", "padded-to-minimum-frame", "just-over-minimum", "multi-KiB", "error", "empty"}

// ---- payload objects ------------------------------------------------------------

// blob is a ProtocolObject of exactly controllable size (8-byte prefix + n bytes).
type blob struct{ B []byte }

func (b *blob) EncodeTo(e *types.Encoder)   { e.WriteBytes(b.B) }
func (b *blob) DecodeFrom(d *types.Decoder) { b.B = d.ReadBytes() }

// emptyObj encodes to zero bytes.
type emptyObj struct{}

func (*emptyObj) EncodeTo(*types.Encoder)   {}
func (*emptyObj) DecodeFrom(*types.Decoder) {}

type protoObj interface {
	types.EncoderTo
	types.DecoderFrom
}

// ---- results --------------------------------------------------------------------

type readRes struct {
	Frame      int  // rhp2: index of the wire frame this read consumes (per direction)
	Msg        int  // index of the message in the sequence
	OK         bool // the read returned success (or, for ExpectErr shapes, the expected error object)
	Equal      bool // the delivered object equals the sent one
	ExpectFail bool // clean behaviour of this read is an error (gateway refused RPC)
	Err        string
}

type sideRes struct {
	HandshakeErr error
	WriteErr     error // first failing write (the side noticed that the connection is gone)
	HasTransport bool
	Reads        []readRes
	ClosedAfter  *bool // rhp2: IsClosed() right after the first failing read
	Panic        string
	Extra        map[string]string
}

type sessResult struct {
	side [2]sideRes
	hung bool
	dump string
	d    *duplex
}

func (r *sideRes) addRead(rr readRes, err error) {
	if err != nil {
		rr.Err = err.Error()
	}
	r.Reads = append(r.Reads, rr)
}

// ---- environment ------------------------------------------------------------------

type transportEnv struct {
	seed    int64
	hostKey types.PrivateKey
	hist    histogram
	// learned from a clean reference session of the tamper sequence
	clear map[string][2]int64 // transport -> cleartext (unauthenticated) prefix length per direction
}

func newTransportEnv(c *vf.Ctx) *transportEnv {
	g := newGen(c.Seed, "transport-hostkey")
	return &transportEnv{seed: c.Seed, hostKey: types.NewPrivateKeyFromSeed(g.bytes(32)), clear: map[string][2]int64{}}
}

var tamperSeq = []int{shMultiKiB, shTiny, shError}

const readMaxLen = 1 << 16

func shapeID(s, i int) types.Specifier { return types.NewSpecifier(fmt.Sprintf("C19s%di%d", s, i)) }

// receivers: one side of a session reads every message of one type into the SAME variable, as a protocol loop does
// (the first message of each type still meets a fresh value). Decoders that reuse the receiver's buffers must not let
// the previous message show through.
type receivers map[reflect.Type]protoObj

func (r receivers) get(fresh func() protoObj) protoObj {
	o := fresh()
	t := reflect.TypeOf(o)
	if old, ok := r[t]; ok {
		return old
	}
	r[t] = o
	return o
}

// ---- rhp/v2 ---------------------------------------------------------------------------

// rhp2Obj returns the object of shape s sent as message i, and a fresh
// receiver. For shError the object is an *rhp2.RPCError.
func (te *transportEnv) rhp2Obj(tc tCase, s, i int, dir string) (protoObj, func() protoObj) {
	if s == shBlob {
		if dir != tc.Dir {
			s = shTiny
		} else {
			return &blob{newGen(te.seed, "blob").bytes(tc.BlobLen)}, func() protoObj { return new(blob) }
		}
	}
	g := newGen(te.seed, fmt.Sprintf("rhp2/%s/%d/%d", dir, s, i))
	// frame = 8 (length) + 12 (nonce) + plaintext + 16 (tag); minimum frame 4096
	// plaintext of a request = object; of a response = 1 (error flag) + object
	overhead := 8 + 12 + 16
	if dir == "response" {
		overhead++
	}
	switch s {
	case shTiny:
		return &rhp2.RPCSettingsResponse{Settings: g.bytes(3 + 2*(2-i%3))}, func() protoObj { return new(rhp2.RPCSettingsResponse) }
	case shPadded:
		return &rhp2.RPCSettingsResponse{Settings: g.bytes(4096 - overhead - 8)}, func() protoObj { return new(rhp2.RPCSettingsResponse) }
	case shJustOver:
		return &rhp2.RPCSettingsResponse{Settings: g.bytes(4096 - overhead - 8 + 1)}, func() protoObj { return new(rhp2.RPCSettingsResponse) }
	case shMultiKiB:
		if dir == "response" {
			// NOT RPCReadResponse: its DecodeFrom allocates from an unchecked length
			// (C10 finding), which on the RawResponse path is reachable by a bit flip
			// and can take the whole process down. That path is probed separately
			// and safely by the "rawread" cases.
			return &rhp2.RPCSectorRootsResponse{Signature: g.sig(), SectorRoots: g.hashes(170 - 30*(i%3)), MerkleProof: g.hashes(10 - 2*(i%3))}, func() protoObj { return new(rhp2.RPCSectorRootsResponse) }
		}
		return &rhp2.RPCReadResponse{Signature: g.sig(), Data: g.bytes(5500 - 900*(i%3)), MerkleProof: g.hashes(10 - 2*(i%3))}, func() protoObj { return new(rhp2.RPCReadResponse) }
	case shReadResp:
		return &rhp2.RPCReadResponse{Signature: g.sig(), Data: g.bytes(5000), MerkleProof: g.hashes(4)}, func() protoObj { return new(rhp2.RPCReadResponse) }
	case shError:
		return &rhp2.RPCError{Type: types.NewSpecifier("C19Error"), Data: g.bytes(20), Description: "c19 error " + g.text(30)}, func() protoObj { return new(rhp2.RPCError) }
	default:
		return &emptyObj{}, func() protoObj { return new(emptyObj) }
	}
}

func (te *transportEnv) runRHP2(tc tCase) *sessResult {
	a, b, d := newDuplex(tc.Fault)
	res := &sessResult{d: d}
	var wg sync.WaitGroup
	wg.Add(2)
	d.expect(2)
	seq := tc.Seq
	maxLen := uint64(readMaxLen)
	if tc.MaxLen != 0 {
		maxLen = tc.MaxLen
	}
	guard := func(side int) {
		if r := recover(); r != nil {
			res.side[side].Panic = fmt.Sprintf("%v", r)
		}
	}
	noteClosed := func(side int, t *rhp2.Transport) {
		if res.side[side].ClosedAfter == nil {
			v := t.IsClosed()
			res.side[side].ClosedAfter = &v
		}
	}
	// renter (side 0, A)
	go func() {
		defer wg.Done()
		d.enter()
		defer d.leave()
		defer a.Close()
		defer guard(0)
		sr := &res.side[0]
		rt, err := rhp2.NewRenterTransport(a, te.hostKey.PublicKey())
		if err != nil {
			sr.HandshakeErr = err
			return
		}
		sr.HasTransport = true
		for i, s := range seq {
			obj, _ := te.rhp2Obj(tc, s, i, "request")
			var werr error
			if s == shEmpty {
				werr = rt.WriteRequest(shapeID(s, i), nil)
			} else {
				werr = rt.WriteRequest(shapeID(s, i), obj)
			}
			if werr != nil {
				break
			}
		}
		a.CloseWrite()
		frame := 2 // 0: key exchange, 1: challenge
		recv := receivers{}
		read := func(i, s int) {
			want, fresh := te.rhp2Obj(tc, s, i, "response")
			rr := readRes{Frame: frame, Msg: i}
			frame++
			got := recv.get(fresh)
			var err error
			if tc.Mode == "raw" {
				err = rawRead(rt, got, maxLen)
			} else {
				err = rt.ReadResponse(got, maxLen)
			}
			if s == shError {
				var re *rhp2.RPCError
				if errors.As(err, &re) {
					rr.OK, rr.Equal = true, equalObj(want, re)
					err = nil
				}
			} else if err == nil {
				rr.OK, rr.Equal = true, equalObj(want, got)
			}
			sr.addRead(rr, err)
			if !rr.OK {
				noteClosed(0, rt)
			}
		}
		for i, s := range seq {
			read(i, s)
		}
		read(len(seq), shTiny) // probe: nothing was sent, must fail
	}()
	// host (side 1, B)
	go func() {
		defer wg.Done()
		d.enter()
		defer d.leave()
		defer b.Close()
		defer guard(1)
		sr := &res.side[1]
		ht, err := rhp2.NewHostTransport(b, te.hostKey)
		if err != nil {
			sr.HandshakeErr = err
			return
		}
		sr.HasTransport = true
		frame := 1
		hostRecv := receivers{}
		readMsg := func(i, s int) {
			rr := readRes{Frame: frame, Msg: i}
			frame++
			id, err := ht.ReadID()
			rr.OK = err == nil
			rr.Equal = id == shapeID(s, i)
			sr.addRead(rr, err)
			if err != nil {
				noteClosed(1, ht)
			}
			if s == shEmpty {
				return
			}
			want, fresh := te.rhp2Obj(tc, s, i, "request")
			rr = readRes{Frame: frame, Msg: i}
			frame++
			got := hostRecv.get(fresh)
			err = ht.ReadRequest(got, maxLen)
			rr.OK = err == nil
			rr.Equal = err == nil && equalObj(want, got)
			sr.addRead(rr, err)
			if err != nil {
				noteClosed(1, ht)
			}
		}
		for i, s := range seq {
			readMsg(i, s)
		}
		{ // probe
			rr := readRes{Frame: frame, Msg: len(seq)}
			_, err := ht.ReadID()
			rr.OK = err == nil
			sr.addRead(rr, err)
			if err != nil {
				noteClosed(1, ht)
			}
		}
		for i, s := range seq {
			obj, _ := te.rhp2Obj(tc, s, i, "response")
			var werr error
			if s == shError {
				werr = ht.WriteResponseErr(obj.(*rhp2.RPCError))
			} else {
				werr = ht.WriteResponse(obj)
			}
			if werr != nil {
				break
			}
		}
		b.CloseWrite()
	}()
	ok, dump := watchdog(90*time.Second, wg.Wait, d.killAll)
	res.hung, res.dump = !ok, dump
	return res
}

// rawRead is the streaming read path used by renters for large responses:
// RawResponse, decode from the unauthenticated stream, VerifyTag.
func rawRead(rt *rhp2.Transport, into protoObj, maxLen uint64) error {
	rr, err := rt.RawResponse(maxLen)
	if err != nil {
		return err
	}
	// the transport itself raises maxLen to the minimum frame size
	dec := types.NewDecoder(io.LimitedReader{R: rr, N: int64(max(maxLen, 4096))})
	into.DecodeFrom(dec)
	derr := dec.Err()
	if verr := rr.VerifyTag(); verr != nil {
		return verr
	}
	// only after the tag verified may the decoded data be trusted
	return derr
}

// ---- rhp/v3 ---------------------------------------------------------------------------

func (te *transportEnv) rhp3Obj(tc tCase, s, i int, dir string) (protoObj, func() protoObj) {
	if s == shBlob {
		if dir != tc.Dir {
			s = shTiny
		} else {
			return &blob{newGen(te.seed, "blob").bytes(tc.BlobLen)}, func() protoObj { return new(blob) }
		}
	}
	g := newGen(te.seed, fmt.Sprintf("rhp3/%s/%d/%d", dir, s, i))
	switch s {
	case shTiny:
		return &rhp3.RPCAccountBalanceResponse{Balance: g.cur()}, func() protoObj { return new(rhp3.RPCAccountBalanceResponse) }
	case shPadded: // framed message of exactly minMessageSize (1024): 8 (length) + 1 (flag) + 8 (blob prefix) + n
		return &blob{g.bytes(1024 - 17)}, func() protoObj { return new(blob) }
	case shJustOver:
		return &blob{g.bytes(1024 - 17 + 1)}, func() protoObj { return new(blob) }
	case shMultiKiB:
		if dir == "request" {
			return &rhp3.RPCExecuteProgramRequest{FileContractID: types.FileContractID(g.hash()),
					Program:     []rhp3.Instruction{&rhp3.InstrReadSector{LengthOffset: 1, OffsetOffset: 2, MerkleRootOffset: 3, ProofRequired: true}, &rhp3.InstrHasSector{MerkleRootOffset: 40}},
					ProgramData: g.bytes(9000)},
				func() protoObj { return new(rhp3.RPCExecuteProgramRequest) }
		}
		return &rhp3.RPCExecuteProgramResponse{AdditionalCollateral: g.cur(), OutputLength: 9000, NewMerkleRoot: g.hash(), NewSize: g.u64(),
				Proof: g.hashes(5), Error: errors.New("c19 program error"), TotalCost: g.cur(), FailureRefund: g.cur(), Output: g.bytes(9000)},
			func() protoObj { return new(rhp3.RPCExecuteProgramResponse) }
	case shError:
		return &rhp3.RPCError{Type: types.NewSpecifier("C19Error"), Data: g.bytes(20), Description: "c19 error " + g.text(30)}, func() protoObj { return new(rhp3.RPCError) }
	default:
		return &emptyObj{}, func() protoObj { return new(emptyObj) }
	}
}

// runRHP3: one stream; the renter sends the sequence (first message with
// WriteRequest, the rest with WriteResponse/WriteResponseErr as rhp/v3 RPCs
// do), the host reads it and echoes a sequence of the same shapes back.
func (te *transportEnv) runRHP3(tc tCase) *sessResult {
	a, b, d := newDuplex(tc.Fault)
	res := &sessResult{d: d}
	var wg sync.WaitGroup
	wg.Add(2)
	d.expect(2)
	seq := tc.Seq
	maxLen := uint64(readMaxLen)
	if tc.MaxLen != 0 {
		maxLen = tc.MaxLen
	}
	hostDone := make(chan struct{})
	renterDone := make(chan struct{})
	guard := func(side int) {
		if r := recover(); r != nil {
			res.side[side].Panic = fmt.Sprintf("%v", r)
		}
	}
	recv3 := map[*sideRes]receivers{}
	var recv3mu sync.Mutex
	readInto := func(sr *sideRes, i, s int, dir string, rd func(protoObj) error) {
		want, fresh := te.rhp3Obj(tc, s, i, dir)
		rr := readRes{Msg: i}
		recv3mu.Lock()
		if recv3[sr] == nil {
			recv3[sr] = receivers{}
		}
		got := recv3[sr].get(fresh)
		recv3mu.Unlock()
		err := rd(got)
		if s == shError && !(dir == "request" && i == 0) {
			var re *rhp3.RPCError
			if errors.As(err, &re) {
				rr.OK, rr.Equal = true, equalObj(want, re)
				err = nil
			}
		} else if err == nil {
			rr.OK, rr.Equal = true, equalObj(want, got)
		}
		sr.addRead(rr, err)
	}
	go func() { // renter
		defer wg.Done()
		d.enter()
		defer d.leave()
		defer a.Close()
		defer guard(0)
		defer close(renterDone)
		sr := &res.side[0]
		rt, err := rhp3.NewRenterTransport(a, te.hostKey.PublicKey())
		if err != nil {
			sr.HandshakeErr = err
			return
		}
		sr.HasTransport = true
		defer rt.Close()
		if len(seq) == 0 {
			<-hostDone
			return
		}
		st := rt.DialStream()
		var werr error
		established := true
		for i, s := range seq {
			obj, _ := te.rhp3Obj(tc, s, i, "request")
			switch {
			case i == 0 && s == shEmpty:
				werr = st.WriteRequest(shapeID(s, i), nil)
			case i == 0:
				werr = st.WriteRequest(shapeID(s, i), obj)
			case s == shError:
				werr = st.WriteResponseErr(obj.(*rhp3.RPCError))
			default:
				werr = st.WriteResponse(obj)
			}
			if werr != nil {
				sr.WriteErr = werr
				established = i > 0
				break
			}
		}
		// after a failed write the reads are still attempted (none may succeed),
		// unless not even the first frame went out: reading from a stream the
		// peer has never heard of is a usage error that mux answers with a panic
		if established {
			for i, s := range seq {
				readInto(sr, i, s, "response", func(o protoObj) error { return st.ReadResponse(o, maxLen) })
			}
		}
		st.Close()
		select {
		case <-hostDone:
		}
	}()
	go func() { // host
		defer wg.Done()
		d.enter()
		defer d.leave()
		defer b.Close()
		defer guard(1)
		sr := &res.side[1]
		var once sync.Once
		done := func() { once.Do(func() { close(hostDone) }) }
		defer done()
		ht, err := rhp3.NewHostTransport(b, te.hostKey)
		if err != nil {
			sr.HandshakeErr = err
			return
		}
		sr.HasTransport = true
		defer ht.Close()
		if len(seq) == 0 {
			// do not tear the connection down while the peer still completes its handshake
			done()
			<-renterDone
			return
		}
		st, err := ht.AcceptStream()
		if err != nil {
			sr.addRead(readRes{Msg: 0}, err)
			return
		}
		failed := false
		for i, s := range seq {
			if i == 0 {
				id, err := st.ReadID()
				rr := readRes{Msg: 0, OK: err == nil, Equal: id == shapeID(s, 0)}
				sr.addRead(rr, err)
				if err != nil {
					failed = true
					done()
				}
				if s == shEmpty {
					continue
				}
				readInto(sr, i, s, "request", func(o protoObj) error { return st.ReadRequest(o, maxLen) })
			} else {
				readInto(sr, i, s, "request", func(o protoObj) error { return st.ReadResponse(o, maxLen) })
			}
			if !sr.Reads[len(sr.Reads)-1].OK {
				failed = true
				done()
			}
		}
		if !failed {
			for i, s := range seq {
				obj, _ := te.rhp3Obj(tc, s, i, "response")
				var werr error
				if s == shError {
					werr = st.WriteResponseErr(obj.(*rhp3.RPCError))
				} else {
					werr = st.WriteResponse(obj)
				}
				if werr != nil {
					break
				}
			}
		}
		st.Close()
		done()
		<-renterDone
	}()
	ok, dump := watchdog(90*time.Second, wg.Wait, d.killAll)
	res.hung, res.dump = !ok, dump
	return res
}

// ---- gateway ------------------------------------------------------------------------------

var (
	gwGenesis = types.BlockID{1, 2, 3}
)

func (te *transportEnv) gwHeaders(mismatch string) (gateway.Header, gateway.Header) {
	g := newGen(te.seed, "gateway-headers")
	ha := gateway.Header{GenesisID: gwGenesis, NetAddress: "10.0.0.1:9981"}
	hb := gateway.Header{GenesisID: gwGenesis, NetAddress: "10.0.0.2:9982"}
	g.fill(ha.UniqueID[:])
	g.fill(hb.UniqueID[:])
	hb.UniqueID[0] = ha.UniqueID[0] ^ 1 // certainly different
	switch mismatch {
	case "genesis":
		hb.GenesisID[5] ^= 0x40
	case "unique":
		hb.UniqueID = ha.UniqueID
	case "both":
		hb.GenesisID[5] ^= 0x40
		hb.UniqueID = ha.UniqueID
	}
	return ha, hb
}

// gwObj returns the request object the dialer sends for shape s as message i,
// the response the accepter returns, and whether the accepter refuses the RPC.
func (te *transportEnv) gwObj(s, i int) (req gateway.Object, resp gateway.Object, refuse bool) {
	g := newGen(te.seed, fmt.Sprintf("gw/%d/%d", s, i))
	// one mux frame carries 4320 - 16 (tag) - 8 (header) = 4296 payload bytes
	const framePayload = 4296
	txnSet := func(total int) *gateway.RPCRelayV2TransactionSet {
		// encoded request: index (40) + slice prefix (8) + txn(1 version + 8 fields + 8 prefix + arb + 16 fee)
		arb := total - 40 - 8 - 33
		return &gateway.RPCRelayV2TransactionSet{Index: types.ChainIndex{Height: 7, ID: types.BlockID(g.hash())}, Transactions: []types.V2Transaction{mkTxn(g, arb)}}
	}
	switch s {
	case shTiny:
		return &gateway.RPCDiscoverIP{}, &gateway.RPCDiscoverIP{IP: "203.0.113.7"}, false
	case shPadded:
		return txnSet(framePayload), &gateway.RPCRelayV2TransactionSet{}, false
	case shJustOver:
		return txnSet(framePayload + 1), &gateway.RPCRelayV2TransactionSet{}, false
	case shMultiKiB:
		req := &gateway.RPCSendTransactions{Index: types.ChainIndex{Height: 9, ID: types.BlockID(g.hash())}, Hashes: g.hashes(100)}
		resp := &gateway.RPCSendTransactions{Transactions: []types.Transaction{mkV1Txn(g, 6000)}, V2Transactions: []types.V2Transaction{mkTxn(g, 6000), mkTxn(g, 300)}}
		return req, resp, false
	case shBigReq:
		return txnSet(3 * framePayload), &gateway.RPCRelayV2TransactionSet{}, false
	case shError:
		// the gateway protocol has no error object: a peer refuses an RPC by closing the stream
		return &gateway.RPCSendHeaders{Index: types.ChainIndex{Height: 1, ID: types.BlockID(g.hash())}, Max: 10}, nil, true
	default:
		return &gateway.RPCRelayV2Header{Header: types.BlockHeader{ParentID: types.BlockID(g.hash()), Nonce: g.u64(), Timestamp: g.tm(), Commitment: g.hash()}}, &gateway.RPCRelayV2Header{}, false
	}
}

// gwMerge returns what the dialer's object looks like after a faithful round
// trip: its own request fields plus the response fields.
func gwMerge(req, resp gateway.Object) gateway.Object {
	switch r := req.(type) {
	case *gateway.RPCDiscoverIP:
		return &gateway.RPCDiscoverIP{IP: resp.(*gateway.RPCDiscoverIP).IP}
	case *gateway.RPCSendTransactions:
		p := resp.(*gateway.RPCSendTransactions)
		return &gateway.RPCSendTransactions{Index: r.Index, Hashes: r.Hashes, Transactions: p.Transactions, V2Transactions: p.V2Transactions}
	default:
		return req
	}
}

func gwFresh(o gateway.Object) gateway.Object {
	return gateway.ObjectForID(gateway.VerifIDForObject(o))
}

func (te *transportEnv) runGateway(tc tCase) *sessResult {
	a, b, d := newDuplex(tc.Fault)
	res := &sessResult{d: d}
	var wg sync.WaitGroup
	wg.Add(2)
	d.expect(2)
	seq := tc.Seq
	ha, hb := te.gwHeaders(tc.Mismatch)
	accDone := make(chan struct{})
	dialDone := make(chan struct{})
	guard := func(side int) {
		if r := recover(); r != nil {
			res.side[side].Panic = fmt.Sprintf("%v", r)
		}
	}
	go func() { // dialer
		defer wg.Done()
		d.enter()
		defer d.leave()
		defer a.Close()
		defer guard(0)
		defer close(dialDone)
		sr := &res.side[0]
		t, err := gateway.Dial(a, ha)
		if err != nil {
			sr.HandshakeErr = err
			return
		}
		sr.HasTransport = true
		defer t.Close()
		sr.Extra = map[string]string{"version": t.Version, "addr": t.Addr, "unique": fmt.Sprintf("%x", t.UniqueID[:])}
		failed := false
		for i, s := range seq {
			req, resp, refuse := te.gwObj(s, i)
			st, _ := t.DialStream()
			err := st.WriteID(req)
			if err == nil {
				err = st.WriteRequest(req)
			}
			rr := readRes{Msg: i, ExpectFail: refuse}
			if err == nil {
				// the dialer reads the response into the object that carries its request
				got := req
				err = st.ReadResponse(got)
				if err == nil && !refuse {
					rr.OK, rr.Equal = true, equalObj(gwMerge(req, resp), got)
				} else if err == nil {
					rr.OK = true // a refused RPC must not look like a success
				}
			}
			sr.addRead(rr, err)
			st.Close()
			if err != nil && !refuse {
				failed = true
				break
			}
		}
		if !failed {
			<-accDone
		}
	}()
	go func() { // accepter
		defer wg.Done()
		d.enter()
		defer d.leave()
		defer b.Close()
		defer guard(1)
		sr := &res.side[1]
		var once sync.Once
		done := func() { once.Do(func() { close(accDone) }) }
		defer done()
		t, err := gateway.Accept(b, hb)
		if err != nil {
			sr.HandshakeErr = err
			return
		}
		sr.HasTransport = true
		defer t.Close()
		sr.Extra = map[string]string{"version": t.Version, "addr": t.Addr, "unique": fmt.Sprintf("%x", t.UniqueID[:])}
		for i, s := range seq {
			req, resp, refuse := te.gwObj(s, i)
			rr := readRes{Msg: i}
			st, err := t.AcceptStream()
			if err != nil {
				sr.addRead(rr, err)
				done()
				continue
			}
			id, err := st.ReadID()
			var got gateway.Object
			if err == nil {
				got = gateway.ObjectForID(id)
				if got == nil {
					err = fmt.Errorf("ObjectForID(%v) = nil", id)
				} else if id != gateway.VerifIDForObject(req) {
					err = fmt.Errorf("read RPC ID %v, want %v", id, gateway.VerifIDForObject(req))
				}
			}
			if err == nil {
				err = st.ReadRequest(got)
			}
			if err == nil {
				rr.OK, rr.Equal = true, equalObj(req, got)
			}
			sr.addRead(rr, err)
			if err != nil {
				done()
				st.Close()
				continue
			}
			if !refuse {
				st.WriteResponse(resp)
			}
			st.Close()
		}
		done()
		<-dialDone
	}()
	ok, dump := watchdog(90*time.Second, wg.Wait, d.killAll)
	res.hung, res.dump = !ok, dump
	return res
}

func (te *transportEnv) session(tc tCase) *sessResult {
	switch tc.Transport {
	case "rhp2":
		return te.runRHP2(tc)
	case "rhp3":
		return te.runRHP3(tc)
	case "gateway":
		return te.runGateway(tc)
	}
	return nil
}
