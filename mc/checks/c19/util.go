package c19

import (
	"encoding/binary"
	"fmt"
	"reflect"
	"runtime"
	"sync"
	"time"

	"go.sia.tech/core/types"
)

// gen is a deterministic byte source salted by VERIF_SEED. It only provides
// key material / filler bytes (data independence); it never selects cases.
type gen struct{ s uint64 }

func newGen(seed int64, salt string) *gen {
	g := &gen{s: uint64(seed)*0x9E3779B97F4A7C15 + 0x1234567}
	for _, b := range []byte(salt) {
		g.s = (g.s ^ uint64(b)) * 0x100000001B3
	}
	return g
}

func (g *gen) u64() uint64 {
	g.s += 0x9E3779B97F4A7C15
	z := g.s
	z = (z ^ (z >> 30)) * 0xBF58476D1CE4E5B9
	z = (z ^ (z >> 27)) * 0x94D049BB133111EB
	return z ^ (z >> 31)
}

func (g *gen) fill(b []byte) {
	i := 0
	for ; i+8 <= len(b); i += 8 {
		binary.LittleEndian.PutUint64(b[i:], g.u64())
	}
	if i < len(b) {
		var t [8]byte
		binary.LittleEndian.PutUint64(t[:], g.u64())
		copy(b[i:], t[:])
	}
}

func (g *gen) bytes(n int) []byte {
	if n == 0 {
		return nil
	}
	b := make([]byte, n)
	g.fill(b)
	return b
}

// text returns n printable ASCII bytes.
func (g *gen) text(n int) string {
	b := g.bytes(n)
	for i := range b {
		b[i] = 'a' + b[i]%26
	}
	return string(b)
}

func (g *gen) hash() (h types.Hash256) { g.fill(h[:]); return }
func (g *gen) sig() (s types.Signature) { g.fill(s[:]); return }
func (g *gen) cur() types.Currency      { return types.NewCurrency(g.u64()|1, g.u64()) }
func (g *gen) tm() time.Time            { return time.Unix(int64(g.u64()>>2), 0) }
func (g *gen) hashes(n int) []types.Hash256 {
	if n == 0 {
		return nil
	}
	hs := make([]types.Hash256, n)
	for i := range hs {
		g.fill(hs[i][:])
	}
	return hs
}

var timeType = reflect.TypeOf(time.Time{})

// equalObj is reflect.DeepEqual except that nil and empty slices are equal,
// time.Time values are compared as instants, and error values by message.
func equalObj(a, b any) bool {
	return eqv(reflect.ValueOf(a), reflect.ValueOf(b))
}

func eqv(a, b reflect.Value) bool {
	if !a.IsValid() || !b.IsValid() {
		return a.IsValid() == b.IsValid()
	}
	if a.Type() != b.Type() {
		return false
	}
	if a.Type() == timeType && a.CanInterface() {
		return a.Interface().(time.Time).Equal(b.Interface().(time.Time))
	}
	switch a.Kind() {
	case reflect.Slice:
		if a.Len() != b.Len() {
			return false
		}
		if a.Len() == 0 {
			return true
		}
		if a.Type().Elem().Kind() == reflect.Uint8 && a.CanInterface() {
			return string(a.Bytes()) == string(b.Bytes())
		}
		for i := 0; i < a.Len(); i++ {
			if !eqv(a.Index(i), b.Index(i)) {
				return false
			}
		}
		return true
	case reflect.Array:
		for i := 0; i < a.Len(); i++ {
			if !eqv(a.Index(i), b.Index(i)) {
				return false
			}
		}
		return true
	case reflect.Struct:
		for i := 0; i < a.NumField(); i++ {
			if !eqv(a.Field(i), b.Field(i)) {
				return false
			}
		}
		return true
	case reflect.Pointer:
		if a.IsNil() || b.IsNil() {
			return a.IsNil() == b.IsNil()
		}
		return eqv(a.Elem(), b.Elem())
	case reflect.Interface:
		if a.IsNil() || b.IsNil() {
			return a.IsNil() == b.IsNil()
		}
		if a.CanInterface() {
			if ea, ok := a.Interface().(error); ok {
				eb, ok2 := b.Interface().(error)
				return ok2 && ea.Error() == eb.Error()
			}
		}
		return eqv(a.Elem(), b.Elem())
	case reflect.Map:
		if a.Len() != b.Len() {
			return false
		}
		for _, k := range a.MapKeys() {
			bv := b.MapIndex(k)
			if !bv.IsValid() || !eqv(a.MapIndex(k), bv) {
				return false
			}
		}
		return true
	case reflect.Bool:
		return a.Bool() == b.Bool()
	case reflect.Int, reflect.Int8, reflect.Int16, reflect.Int32, reflect.Int64:
		return a.Int() == b.Int()
	case reflect.Uint, reflect.Uint8, reflect.Uint16, reflect.Uint32, reflect.Uint64, reflect.Uintptr:
		return a.Uint() == b.Uint()
	case reflect.String:
		return a.String() == b.String()
	case reflect.Float32, reflect.Float64:
		return a.Float() == b.Float()
	case reflect.Func:
		return a.IsNil() == b.IsNil()
	default:
		panic(fmt.Sprintf("equalObj: unsupported kind %v", a.Kind()))
	}
}

// watchdog runs fn; if it does not finish within the (generous) safety limit
// onTimeout is called (it must unblock fn, e.g. by killing the pipe) and the
// function reports false. It is never used as an oracle.
func watchdog(limit time.Duration, fn func(), onTimeout func()) (ok bool, stacks string) {
	done := make(chan struct{})
	var p any
	var pst string
	go func() {
		defer close(done)
		defer func() {
			if r := recover(); r != nil {
				p = r
				buf := make([]byte, 1<<14)
				pst = string(buf[:runtime.Stack(buf, false)])
			}
		}()
		fn()
	}()
	t := time.NewTimer(limit)
	defer t.Stop()
	select {
	case <-done:
		if p != nil {
			panic(fmt.Sprintf("%v\n%s", p, pst))
		}
		return true, ""
	case <-t.C:
		buf := make([]byte, 1<<20)
		stacks = string(buf[:runtime.Stack(buf, true)])
		if len(stacks) > 6000 {
			stacks = stacks[:6000]
		}
		if onTimeout != nil {
			onTimeout()
		}
		select {
		case <-done:
		case <-time.After(10 * time.Second):
		}
		return false, stacks
	}
}

// limiter bounds the number of concurrently materialised big objects.
type limiter struct{ ch chan struct{} }

func newLimiter(n int) *limiter { return &limiter{make(chan struct{}, n)} }
func (l *limiter) do(big bool, fn func()) {
	if big {
		l.ch <- struct{}{}
		defer func() { <-l.ch }()
	}
	fn()
}

// histogram is a concurrent string counter.
type histogram struct {
	mu sync.Mutex
	m  map[string]int64
}

func (h *histogram) add(k string) {
	h.mu.Lock()
	if h.m == nil {
		h.m = map[string]int64{}
	}
	h.m[k]++
	h.mu.Unlock()
}
func (h *histogram) snapshot() map[string]int64 {
	h.mu.Lock()
	defer h.mu.Unlock()
	o := map[string]int64{}
	for k, v := range h.m {
		o[k] = v
	}
	return o
}
