// Package c18: multiproof block compression and compact block relay are
// lossless. (a) every v2 transaction set over every subset of <=3 live leaves
// (all subsets for small forests) spread over 1-3 transactions, at every
// accumulator size, plus every honest block of a union-alphabet exploration
// (chain-index elements, ephemeral parents, duplicate leaves); (b) every subset
// of omitted transactions x every permutation of every candidate pool.
package c18

import (
	"bytes"
	"encoding/json"
	"fmt"
	"sort"

	"go.sia.tech/core/consensus"
	"go.sia.tech/core/gateway"
	"go.sia.tech/core/types"
	"verifmc/chain"
	"verifmc/vf"
)

func init() {
	vf.Register(&vf.Check{ID: "C18", Level: "model_checking", Run: run, Replay: replay})
}

func enc(fn func(e *types.Encoder)) []byte {
	var buf bytes.Buffer
	e := types.NewEncoder(&buf)
	fn(e)
	e.Flush()
	return buf.Bytes()
}

func txnBytes(t types.V2Transaction) []byte { return enc(t.EncodeTo) }

// roundTrip checks every multiproof form of block b (valid on state cs).
func roundTrip(cs consensus.State, b types.Block, bs consensus.V1BlockSupplement) string {
	if b.V2 == nil {
		return ""
	}
	orig := make([][]byte, len(b.V2.Transactions))
	for i := range b.V2.Transactions {
		orig[i] = txnBytes(b.V2.Transactions[i])
	}
	same := func(txns []types.V2Transaction, form string) string {
		if len(txns) != len(orig) {
			return fmt.Sprintf("%s: decoded %d transactions, encoded %d", form, len(txns), len(orig))
		}
		for i := range txns {
			if !bytes.Equal(txnBytes(txns[i]), orig[i]) {
				return fmt.Sprintf("%s: transaction %d (with its element proofs) not restored bit-for-bit", form, i)
			}
		}
		return ""
	}
	// form 1: V2TransactionsMultiproof
	{
		var dec types.V2TransactionsMultiproof
		buf := enc(types.V2TransactionsMultiproof(b.V2.Transactions).EncodeTo)
		d := types.NewBufDecoder(buf)
		var perr any
		func() {
			defer func() { perr = recover() }()
			dec.DecodeFrom(d)
		}()
		if perr != nil {
			return fmt.Sprintf("V2TransactionsMultiproof: decoder panicked on the encoder's own output: %v", perr)
		}
		if d.Err() != nil {
			return "V2TransactionsMultiproof: decode error: " + d.Err().Error()
		}
		if s := same(dec, "V2TransactionsMultiproof"); s != "" {
			return s
		}
		if !bytes.Equal(enc(dec.EncodeTo), buf) {
			return "V2TransactionsMultiproof: re-encoding differs"
		}
	}
	// form 2: V2BlockData
	{
		var dec types.V2BlockData
		d := types.NewBufDecoder(enc(b.V2.EncodeTo))
		dec.DecodeFrom(d)
		if d.Err() != nil {
			return "V2BlockData: decode error: " + d.Err().Error()
		}
		if dec.Height != b.V2.Height || dec.Commitment != b.V2.Commitment {
			return "V2BlockData: height/commitment not restored"
		}
		if s := same(dec.Transactions, "V2BlockData"); s != "" {
			return s
		}
	}
	// form 3: V2Block
	var b2 types.Block
	{
		buf := enc(types.V2Block(b).EncodeTo)
		d := types.NewBufDecoder(buf)
		(*types.V2Block)(&b2).DecodeFrom(d)
		if d.Err() != nil {
			return "V2Block: decode error: " + d.Err().Error()
		}
		if b2.V2 == nil {
			return "V2Block: v2 data lost"
		}
		if s := same(b2.V2.Transactions, "V2Block"); s != "" {
			return s
		}
		if b2.ID() != b.ID() || b2.V2.Commitment != b.V2.Commitment {
			return "V2Block: block ID or commitment changed by the round trip"
		}
		if !bytes.Equal(enc(types.V2Block(b2).EncodeTo), buf) {
			return "V2Block: re-encoding differs"
		}
		if cs.Commitment(b2.MinerPayouts[0].Address, b2.Transactions, b2.V2.Transactions) != b.V2.Commitment {
			return "V2Block: commitment recomputed from the decoded block differs"
		}
		e1 := consensus.ValidateBlock(cs, b, bs)
		e2 := consensus.ValidateBlock(cs, b2, bs)
		if (e1 == nil) != (e2 == nil) {
			return fmt.Sprintf("V2Block: validity changed by the round trip (%v -> %v)", e1, e2)
		}
	}
	return ""
}

type accCase struct {
	M      int     `json:"genesis_outputs"`
	Groups [][]int `json:"transactions_spend_leaf_positions"`
	Chain  bool    `json:"ephemeral_chain"`
	Seed   int64   `json:"seed"`
}

func liveByLeaf(w *chain.World) []types.SiacoinElement {
	var es []types.SiacoinElement
	for _, e := range w.Store.SC {
		es = append(es, e)
	}
	sort.Slice(es, func(i, j int) bool { return es[i].StateElement.LeafIndex < es[j].StateElement.LeafIndex })
	return es
}

func accBlock(w *chain.World, groups [][]int, chainEph bool) (types.Block, consensus.V1BlockSupplement) {
	live := liveByLeaf(w)
	acs := types.AnyoneCanSpend()
	var txns []types.V2Transaction
	for _, g := range groups {
		var t types.V2Transaction
		var sum types.Currency
		for _, i := range g {
			t.SiacoinInputs = append(t.SiacoinInputs, types.V2SiacoinInput{Parent: live[i].Copy(), SatisfiedPolicy: types.SatisfiedPolicy{Policy: acs}})
			sum = sum.Add(live[i].SiacoinOutput.Value)
		}
		t.SiacoinOutputs = []types.SiacoinOutput{{Value: sum, Address: w.Keys.Addr(chain.AddrACS)}}
		txns = append(txns, t)
	}
	if chainEph && len(txns) > 0 {
		last := txns[len(txns)-1]
		t := types.V2Transaction{SiacoinInputs: []types.V2SiacoinInput{{Parent: last.EphemeralSiacoinOutput(0), SatisfiedPolicy: types.SatisfiedPolicy{Policy: acs}}},
			SiacoinOutputs: []types.SiacoinOutput{{Value: last.SiacoinOutputs[0].Value, Address: w.Keys.Addr(chain.AddrACS)}}}
		txns = append(txns, t)
	}
	return w.BuildBlock(nil, txns, chain.BlockOpts{})
}

// partitions of a subset into 1..3 ordered transactions (canonical shapes).
func partitions(s []int) [][][]int {
	out := [][][]int{{s}}
	if len(s) >= 2 {
		var each [][]int
		for _, i := range s {
			each = append(each, []int{i})
		}
		out = append(out, each)
		rev := make([][]int, len(each))
		for i := range each {
			rev[len(each)-1-i] = each[i]
		}
		out = append(out, rev)
	}
	if len(s) == 3 {
		out = append(out, [][]int{{s[0]}, {s[1], s[2]}}, [][]int{{s[0], s[2]}, {s[1]}})
	}
	return out
}

func subsets3(live int) [][]int {
	var out [][]int
	if live <= 10 {
		for m := 1; m < 1<<live; m++ {
			var s []int
			for i := 0; i < live; i++ {
				if m&(1<<i) != 0 {
					s = append(s, i)
				}
			}
			out = append(out, s)
		}
		return out
	}
	for i := 0; i < live; i++ {
		out = append(out, []int{i})
		for j := i + 1; j < live; j++ {
			out = append(out, []int{i, j})
			for k := j + 1; k < live; k++ {
				out = append(out, []int{i, j, k})
			}
		}
	}
	return out
}

func accAlloc(k *chain.Keys, m int) chain.GenesisAlloc {
	var g chain.GenesisAlloc
	for i := 0; i < m; i++ {
		g.SC = append(g.SC, types.SiacoinOutput{Value: types.Siacoins(uint32(100 + i)), Address: k.Addr(chain.AddrACS)})
	}
	return g
}

func runAcc(c *vf.Ctx, w *chain.World, ac accCase) {
	c.Count("evaluations", 1)
	c.Count("transitions", 1)
	b, bs := accBlock(w, ac.Groups, ac.Chain)
	if err := consensus.ValidateBlock(w.CS, b, bs); err != nil {
		c.Violate("C18|honest-rejected|accumulator-spend", fmt.Sprintf("honest block rejected: %v", err), ac)
		return
	}
	if s := roundTrip(w.CS, b, bs); s != "" {
		c.Violate("C18|multiproof|"+firstWord(s), fmt.Sprintf("[%d genesis outputs, groups %v, chain=%v] %s", ac.M, ac.Groups, ac.Chain, s), ac)
	}
	c.Count("multiproof_roundtrips", 1)
}

func firstWord(s string) string {
	for i, r := range s {
		if r == ':' {
			return s[:i]
		}
	}
	return s
}

func unionMenu(w *chain.World) []chain.Action {
	return []chain.Action{
		chain.V1Pay(true, 2), chain.V1Form(1, 2, 100), chain.V1Revise("pay"),
		chain.V2Pay(chain.AddrV2, true, 2), chain.V2Pay(chain.AddrACS, false, 1), chain.V2Chain(chain.AddrACS), chain.V2SF(true), chain.V2Form(1, 2, 100), chain.V2Form(0, 1, 10),
		chain.V2Revise("pay"), chain.V2Revise("grow"), chain.V2Renew("partial"), chain.V2Proof(), chain.V2Expire(), chain.V2Attest(),
	}
}

func run(c *vf.Ctx) {
	N := vf.Pick(c, 20, 70)
	c.Set("rule", fmt.Sprintf("(a) for every accumulator size m+1 (m<=%d): every subset of <=3 live leaves (all subsets when <=10) x canonical partitions into 1-3 transactions x {with, without an ephemeral chain}: V2TransactionsMultiproof, V2BlockData and V2Block encode->decode restore every proof bit-for-bit, same ID/commitment/validity; plus every accepted block of a union-alphabet DFS (storage-proof chain-index elements, ephemeral parents, duplicate leaves from two revisions of one contract in one block); (b) for every v2 block with <=4 transactions from the mixed network: every omitted subset x outline codec round trip x every permutation of every sub-pool of (missing + 2 unrelated) transactions: Complete returns the original block exactly when the pool covers the omissions, else exactly the missing hashes", N))
	keys := chain.NewKeys(c.Seed)
	sp := chain.Spec("acc")
	vf.ParallelFor(N+1, func(m int) {
		w, p := chain.NewWorld(sp, keys, accAlloc(keys, m), chain.Options{})
		if p != nil {
			c.Violate("C18|genesis|"+p.Sig, p.Desc, accCase{M: m, Seed: c.Seed})
			return
		}
		c.Count("states", 1)
		for _, s := range subsets3(m) {
			if c.Expired() {
				return
			}
			for _, g := range partitions(s) {
				for _, ch := range []bool{false, true} {
					c.Distinct(m, fmt.Sprint(g), ch)
					runAcc(c, w, accCase{M: m, Groups: g, Chain: ch, Seed: c.Seed})
				}
			}
		}
	})
	// union exploration: round trip every accepted block
	var pool []poolBlock
	type nv struct {
		net  string
		D, K int
	}
	var nvs []nv
	for _, n := range []string{"mixed", "v2-only"} {
		nvs = append(nvs, nv{n, 2, 2})
		if !c.Quick() {
			nvs = append(nvs, nv{n, 3, 1}) // thorough: also three non-empty single-action blocks
		}
	}
	for _, v := range nvs {
		n := v.net
		if c.Expired() {
			break
		}
		spn := chain.Spec(n)
		m := &chain.Model{Name: "union", Spec: spn, Menu: unionMenu, Opt: chain.Options{CheckLedger: true},
			H: vf.Pick[uint64](c, 7, 9), D: v.D, K: v.K, R: 0}
		if spn.Name == "mixed" {
			m.SkipStart = 3
			m.H += 3
		}
		var pmu = make(chan struct{}, 1)
		m.OnTransition = func(x *chain.Explorer, prev, w *chain.World, path []string) {
			a := w.Hist[len(w.Hist)-1]
			if a.B.V2 == nil {
				return
			}
			c.Count("multiproof_roundtrips", 1)
			if s := roundTrip(prev.CS, a.B, a.BS); s != "" {
				x.Violate("multiproof|"+firstWord(s), s, path)
			}
			// merged variants: the same elements carried by ONE transaction (all of the block's v2 transactions merged, and
			// every adjacent pair merged): several storage proofs / revisions / resolutions / inputs inside one
			// transaction. The merged block need not be valid (signatures) - the codec must restore it all the same.
			for _, mb := range mergedVariants(prev.CS, a.B) {
				c.Count("merged_transaction_roundtrips", 1)
				n := 0
				for _, t := range mb.V2.Transactions {
					k := 0
					for _, r := range t.FileContractResolutions {
						if _, ok := r.Resolution.(*types.V2StorageProof); ok {
							k++
						}
					}
					if k > n {
						n = k
					}
				}
				if n >= 2 {
					c.Count("transactions_with_several_storage_proofs", 1)
				}
				if s := roundTrip(prev.CS, mb, a.BS); s != "" {
					x.Violate("multiproof|merged|"+firstWord(s), "block whose v2 transactions were merged into one: "+s, path)
				}
			}
			for _, t := range a.B.V2.Transactions {
				seen := map[uint64]int{}
				for _, r := range t.FileContractRevisions {
					seen[r.Parent.StateElement.LeafIndex]++
				}
				for _, r := range t.FileContractResolutions {
					if sp, ok := r.Resolution.(*types.V2StorageProof); ok && sp.ProofIndex.StateElement.LeafIndex != types.UnassignedLeafIndex {
						c.Count("chain_index_elements", 1)
					}
				}
			}
			dup := map[uint64]int{}
			for _, t := range a.B.V2.Transactions {
				for _, r := range t.FileContractRevisions {
					dup[r.Parent.StateElement.LeafIndex]++
				}
			}
			for _, n := range dup {
				if n > 1 {
					c.Count("duplicate_leaf_blocks", 1)
				}
			}
			if n := len(a.B.Transactions) + len(a.B.V2.Transactions); n >= 2 && n <= 4 {
				select {
				case pmu <- struct{}{}:
					if len(pool) < vf.Pick(c, 60, 400) {
						pool = append(pool, poolBlock{prev.CS, a.B, append([]string(nil), path...), spn.Name})
						// variant: the same block with one input-less (arbitrary data only) transaction placed first AND
						// last - a block may legally contain the same transaction several times
						if rb, ok := repeatedVariant(prev.CS, a.B, a.BS); ok && n <= 3 {
							pool = append(pool, poolBlock{prev.CS, rb, append(append([]string(nil), path...), "variant:repeated-transaction"), spn.Name})
							c.Count("outline_blocks_with_a_repeated_transaction", 1)
						}
					}
					<-pmu
				default:
				}
			}
		}
		x := chain.NewExplorer(c, m, "C18")
		x.Run()
		x.Report(fmt.Sprintf("%s/D%dK%d/", n, v.D, v.K))
	}
	// (b) outlines
	vf.ParallelFor(len(pool), func(i int) { outlines(c, pool[i], pool[(i+1)%len(pool)]) })
	c.Set("outline_blocks", len(pool))
	c.Sample(accCase{M: 13, Groups: [][]int{{2}, {5, 12}}, Chain: true, Seed: c.Seed})
	c.RequireFeature("multiproof_roundtrips", "chain_index_elements", "duplicate_leaf_blocks", "feature:v2_ephemeral_spend", "outline_complete_exact", "outline_missing_exact", "outline_codec_roundtrips", "outline_blocks_with_a_repeated_transaction", "merged_transaction_roundtrips", "transactions_with_several_storage_proofs")
}

// mergeV2 concatenates the element lists of a and b into one transaction.
func mergeV2(a, b types.V2Transaction) types.V2Transaction {
	m := a
	m.SiacoinInputs = append(append([]types.V2SiacoinInput(nil), a.SiacoinInputs...), b.SiacoinInputs...)
	m.SiacoinOutputs = append(append([]types.SiacoinOutput(nil), a.SiacoinOutputs...), b.SiacoinOutputs...)
	m.SiafundInputs = append(append([]types.V2SiafundInput(nil), a.SiafundInputs...), b.SiafundInputs...)
	m.SiafundOutputs = append(append([]types.SiafundOutput(nil), a.SiafundOutputs...), b.SiafundOutputs...)
	m.FileContracts = append(append([]types.V2FileContract(nil), a.FileContracts...), b.FileContracts...)
	m.FileContractRevisions = append(append([]types.V2FileContractRevision(nil), a.FileContractRevisions...), b.FileContractRevisions...)
	m.FileContractResolutions = append(append([]types.V2FileContractResolution(nil), a.FileContractResolutions...), b.FileContractResolutions...)
	m.Attestations = append(append([]types.Attestation(nil), a.Attestations...), b.Attestations...)
	m.ArbitraryData = append(append([]byte(nil), a.ArbitraryData...), b.ArbitraryData...)
	if m.NewFoundationAddress == nil {
		m.NewFoundationAddress = b.NewFoundationAddress
	}
	m.MinerFee = a.MinerFee.Add(b.MinerFee)
	return m
}

// mergedVariants returns b with all its v2 transactions merged into one, and b with each adjacent pair merged
// (commitment recomputed, re-sealed; validity is not required).
func mergedVariants(cs consensus.State, b types.Block) (out []types.Block) {
	if b.V2 == nil || len(b.V2.Transactions) < 2 || len(b.MinerPayouts) != 1 {
		return nil
	}
	mk := func(txns []types.V2Transaction) {
		nb := b
		v2 := *b.V2
		v2.Transactions = txns
		nb.V2 = &v2
		nb.V2.Commitment = cs.Commitment(nb.MinerPayouts[0].Address, nb.Transactions, nb.V2Transactions())
		chain.Seal(cs, &nb)
		out = append(out, nb)
	}
	ts := b.V2.Transactions
	all := ts[0]
	for _, t := range ts[1:] {
		all = mergeV2(all, t)
	}
	mk([]types.V2Transaction{all})
	if len(ts) > 2 {
		for i := 0; i+1 < len(ts); i++ {
			var txns []types.V2Transaction
			for j := 0; j < len(ts); j++ {
				switch {
				case j == i:
					txns = append(txns, mergeV2(ts[j], ts[j+1]))
				case j == i+1:
				default:
					txns = append(txns, ts[j])
				}
			}
			mk(txns)
		}
	}
	return out
}

// repeatedVariant inserts the same data-only v2 transaction at the front and at the end of a v2 block, re-seals it and
// keeps it only if the real ValidateBlock accepts it.
func repeatedVariant(cs consensus.State, b types.Block, bs consensus.V1BlockSupplement) (types.Block, bool) {
	if b.V2 == nil {
		return b, false
	}
	d := types.V2Transaction{ArbitraryData: []byte("c18 repeated transaction")}
	nb := b
	v2 := *b.V2
	v2.Transactions = append(append([]types.V2Transaction{d}, b.V2.Transactions...), d)
	nb.V2 = &v2
	if len(nb.MinerPayouts) != 1 {
		return b, false
	}
	nb.V2.Commitment = cs.Commitment(nb.MinerPayouts[0].Address, nb.Transactions, nb.V2Transactions())
	chain.Seal(cs, &nb)
	if err := consensus.ValidateBlock(cs, nb, bs); err != nil {
		return b, false
	}
	return nb, true
}

type poolBlock struct {
	cs   consensus.State
	b    types.Block
	path []string
	net  string
}

type outlineTx struct {
	v1 *types.Transaction
	v2 *types.V2Transaction
}

func blockBytes(b types.Block) []byte { return enc(types.V2Block(b).EncodeTo) }

func outlines(c *vf.Ctx, pb, other poolBlock) {
	b, cs := pb.b, pb.cs
	// distinct transactions of the block with their multiplicities (the outline replaces transactions by hash, so
	// every occurrence of an omitted transaction is omitted)
	var all []outlineTx
	mult := map[types.Hash256]int{}
	for i := range b.Transactions {
		h := b.Transactions[i].MerkleLeafHash()
		if mult[h]++; mult[h] == 1 {
			all = append(all, outlineTx{v1: &b.Transactions[i]})
		}
	}
	for i := range b.V2.Transactions {
		h := b.V2.Transactions[i].MerkleLeafHash()
		if mult[h]++; mult[h] == 1 {
			all = append(all, outlineTx{v2: &b.V2.Transactions[i]})
		}
	}
	// two unrelated transactions from another block
	var unrelated []outlineTx
	for i := range other.b.Transactions {
		unrelated = append(unrelated, outlineTx{v1: &other.b.Transactions[i]})
	}
	for i := range other.b.V2Transactions() {
		unrelated = append(unrelated, outlineTx{v2: &other.b.V2.Transactions[i]})
	}
	if len(unrelated) > 2 {
		unrelated = unrelated[:2]
	}
	hashOf := func(t outlineTx) types.Hash256 {
		if t.v1 != nil {
			return t.v1.MerkleLeafHash()
		}
		return t.v2.MerkleLeafHash()
	}
	for _, u := range unrelated {
		for _, a := range all {
			if hashOf(u) == hashOf(a) {
				return // pool block shares a transaction (same history prefix): skip this pairing
			}
		}
	}
	origBytes := blockBytes(b)
	fail := func(sig, desc string, omit int) {
		c.Violate("C18|outline|"+sig, fmt.Sprintf("[network %s, block with %d transactions, omitted mask %b] %s", pb.net, len(all), omit, desc),
			map[string]any{"model": "union", "network": pb.net, "seed": c.Seed, "trace": pb.path, "omitted_mask": omit})
	}
	for omit := 0; omit < 1<<len(all); omit++ {
		var ov1 []types.Transaction
		var ov2 []types.V2Transaction
		var missing []outlineTx
		for i, t := range all {
			if omit&(1<<i) != 0 {
				missing = append(missing, t)
				if t.v1 != nil {
					ov1 = append(ov1, *t.v1)
				} else {
					ov2 = append(ov2, *t.v2)
				}
			}
		}
		bo := gateway.OutlineBlock(b, ov1, ov2)
		c.Count("evaluations", 1)
		if bo.ID(cs) != b.ID() {
			fail("id", "outline ID differs from the block ID", omit)
			continue
		}
		wantMissing := map[types.Hash256]bool{}
		for _, t := range missing {
			wantMissing[hashOf(t)] = true
		}
		slots := 0
		for _, t := range missing {
			slots += mult[hashOf(t)]
		}
		if got := bo.Missing(); !sameHashSet(got, wantMissing) || (len(got) != len(missing) && len(got) != slots) {
			fail("missing", fmt.Sprintf("Missing() reports %d hashes, %d distinct transactions (%d positions) were omitted", len(got), len(missing), slots), omit)
			continue
		}
		// codec round trip
		buf := enc(func(e *types.Encoder) { gateway.VerifEncodeOutline(e, &bo) })
		var bo2 gateway.V2BlockOutline
		d := types.NewBufDecoder(buf)
		gateway.VerifDecodeOutline(d, &bo2)
		if d.Err() != nil {
			fail("codec", "outline decode error: "+d.Err().Error(), omit)
			continue
		}
		c.Count("outline_codec_roundtrips", 1)
		if bo2.ID(cs) != b.ID() || !sameHashSet(bo2.Missing(), wantMissing) {
			fail("codec", "decoded outline has a different ID or missing set", omit)
			continue
		}
		// candidate pools: every sub-multiset of (missing + unrelated), every permutation (pool sizes are <= 6)
		cands := append(append([]outlineTx(nil), missing...), unrelated...)
		for mask := 0; mask < 1<<len(cands); mask++ {
			var sel []outlineTx
			covers := true
			for i, t := range cands {
				if mask&(1<<i) != 0 {
					sel = append(sel, t)
				} else if i < len(missing) {
					covers = false
				}
			}
			perms(sel, func(p []outlineTx) {
				var p1 []types.Transaction
				var p2 []types.V2Transaction
				for _, t := range p {
					if t.v1 != nil {
						p1 = append(p1, *t.v1)
					} else {
						p2 = append(p2, *t.v2)
					}
				}
				// decode a fresh outline each time (Complete mutates the receiver)
				var o gateway.V2BlockOutline
				dd := types.NewBufDecoder(buf)
				gateway.VerifDecodeOutline(dd, &o)
				c.Count("evaluations", 1)
				nb, miss := o.Complete(cs, p1, p2)
				if covers {
					if len(miss) != 0 {
						fail("complete", "Complete reports missing transactions although the pool covers every omission", omit)
						return
					}
					if !bytes.Equal(blockBytes(nb), origBytes) || nb.ID() != b.ID() {
						fail("complete", "completed block differs from the original block", omit)
						return
					}
					c.Count("outline_complete_exact", 1)
				} else {
					want := map[types.Hash256]bool{}
					for i, t := range missing {
						if mask&(1<<i) == 0 {
							want[hashOf(t)] = true
						}
					}
					if !sameHashSet(miss, want) {
						fail("complete-missing", fmt.Sprintf("Complete reports %d missing hashes, expected exactly %d", len(miss), len(want)), omit)
						return
					}
					c.Count("outline_missing_exact", 1)
				}
			})
		}
	}
}

func sameHashSet(got []types.Hash256, want map[types.Hash256]bool) bool {
	seen := map[types.Hash256]bool{}
	for _, h := range got {
		if !want[h] {
			return false
		}
		seen[h] = true
	}
	return len(seen) == len(want)
}

func perms(a []outlineTx, fn func([]outlineTx)) {
	if len(a) > 4 {
		// bounded: identity, reverse and rotations for larger pools
		fn(a)
		r := make([]outlineTx, len(a))
		for i := range a {
			r[len(a)-1-i] = a[i]
		}
		fn(r)
		for k := 1; k < len(a); k++ {
			fn(append(append([]outlineTx(nil), a[k:]...), a[:k]...))
		}
		return
	}
	var rec func(k int)
	b := append([]outlineTx(nil), a...)
	rec = func(k int) {
		if k == len(b) {
			fn(append([]outlineTx(nil), b...))
			return
		}
		for i := k; i < len(b); i++ {
			b[k], b[i] = b[i], b[k]
			rec(k + 1)
			b[k], b[i] = b[i], b[k]
		}
	}
	rec(0)
}

func replay(c *vf.Ctx, raw json.RawMessage) {
	var ac accCase
	if err := json.Unmarshal(raw, &ac); err == nil && ac.Groups != nil {
		keys := chain.NewKeys(ac.Seed)
		w, p := chain.NewWorld(chain.Spec("acc"), keys, accAlloc(keys, ac.M), chain.Options{})
		if p != nil {
			c.HarnessError("genesis: %v", p)
			return
		}
		c.Count("states", 1)
		runAcc(c, w, ac)
		return
	}
	w := chain.ReplayTraceWorld(c, raw, func(string) func(w *chain.World) []chain.Action { return unionMenu }, "C18", chain.Options{CheckLedger: true})
	if w != nil && len(w.Hist) > 1 {
		a := w.Hist[len(w.Hist)-1]
		if s := roundTrip(a.PrevCS, a.B, a.BS); s != "" {
			c.Violate("C18|multiproof|"+firstWord(s), s, raw)
		}
		for _, mb := range mergedVariants(a.PrevCS, a.B) {
			if s := roundTrip(a.PrevCS, mb, a.BS); s != "" {
				c.Violate("C18|multiproof|merged|"+firstWord(s), "block whose v2 transactions were merged into one: "+s, raw)
			}
		}
		outlines(c, poolBlock{a.PrevCS, a.B, nil, w.Spec.Name}, poolBlock{a.PrevCS, types.Block{V2: &types.V2BlockData{}}, nil, ""})
	}
}
