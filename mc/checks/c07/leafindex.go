package c07

import (
	"fmt"
	"math"
	"math/big"

	"go.sia.tech/core/consensus"
	"go.sia.tech/core/types"
	"verifmc/chain"
	"verifmc/spec"
	"verifmc/vf"
)

// leafIndexSweep: the challenged leaf is a pure function of (file size, id of the block that seeds the challenge,
// contract id): the 256-bit big-endian integer BLAKE2b(block id || contract id) reduced modulo the number of 64-byte
// leaves (0 for an empty file). Compared with a big-integer reference over a boundary set of file sizes x 64 id pairs.
func leafIndexSweep(c *vf.Ctx) {
	keys := chain.NewKeys(c.Seed)
	n := chain.Spec("v2-only").Network(keys)
	cs := consensus.State{Network: n, Index: types.ChainIndex{Height: 7}}
	sizes := []uint64{0, 1, 63, 64, 65, 127, 128, 129, 191, 192, 193, 4095, 4096, 4097, 1 << 22, 1<<22 + 1, 3 << 30, 1<<32 - 1, 1 << 32, 1<<32 + 65, 1<<63 - 1, 1 << 63, 1<<63 + 64, math.MaxUint64 - 64, math.MaxUint64 - 63, math.MaxUint64}
	for i := 0; i < 64; i++ {
		var wid types.BlockID
		var fcid types.FileContractID
		wid[0], wid[31], fcid[0], fcid[31] = byte(i), byte(i*7+1), byte(i*3), byte(255-i)
		if i%4 == 3 { // extreme digests do not exist, extreme inputs do
			for j := range wid {
				wid[j], fcid[j] = 0xFF, byte(i)
			}
		}
		seed := spec.H(append(append([]byte(nil), wid[:]...), fcid[:]...))
		v := new(big.Int).SetBytes(seed[:])
		for _, F := range sizes {
			leaves := new(big.Int).SetUint64(F / 64)
			if F%64 != 0 {
				leaves.Add(leaves, big.NewInt(1))
			}
			want := uint64(0)
			if leaves.Sign() > 0 {
				want = new(big.Int).Mod(v, leaves).Uint64()
			}
			var got uint64
			c.Count("evaluations", 1)
			c.Distinct("leafindex", i, F)
			if p, _ := vf.Try(func() { got = cs.StorageProofLeafIndex(F, wid, fcid) }); p != nil {
				c.Violate("C07|leaf-index|panic", fmt.Sprintf("StorageProofLeafIndex(filesize %d) panicked: %v", F, p), map[string]any{"part": "leafindex", "filesize": F, "pair": i, "seed": c.Seed})
			} else if got != want {
				c.Violate("C07|leaf-index|differs-from-reference", fmt.Sprintf("StorageProofLeafIndex(filesize %d, pair %d) = %d, reference (digest mod leaves) = %d", F, i, got, want), map[string]any{"part": "leafindex", "filesize": F, "pair": i, "seed": c.Seed})
			} else {
				c.Count("leaf_index_checked", 1)
			}
		}
	}
}
