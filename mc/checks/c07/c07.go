// Package c07: contracts pay out exactly once with fixed totals; storage proofs
// are sound and complete. (a) lifecycle models F1/F2 with revision sequences,
// every resolution kind at every admissible height, pair blocks, and static
// rule violations as attacks; (b) every file shape x every challenge index x
// the three v1 leaf-handling eras and v2, through the real ValidateBlock.
package c07

import (
	"encoding/json"
	"fmt"
	"math"

	"go.sia.tech/core/types"
	"verifmc/chain"
	"verifmc/spec"
	"verifmc/vf"
)

func init() {
	vf.Register(&vf.Check{ID: "C07", Level: "model_checking", Run: run, Replay: replay})
}

// The supply equation is C01's subject; C07 compares payouts element by element with the reference ledger (CheckLedger).
var opt = chain.Options{CheckLedger: true, CheckForest: true}

func menuV1(w *chain.World) []chain.Action {
	return []chain.Action{
		chain.V1Form(1, 2, 100), chain.V1Form(0, 1, 10), chain.V1Form(2, 1, 129),
		chain.V1Revise("pay"), chain.V1Revise("grow"), chain.V1Revise("window"), chain.V1Revise("max"), chain.V1Proof(false), chain.V1Proof(true),
	}
}

func menuV2(w *chain.World) []chain.Action {
	return []chain.Action{
		chain.V2Form(1, 2, 100), chain.V2Form(0, 1, 0), chain.V2Form(2, 1, 129),
		chain.V2Revise("pay"), chain.V2Revise("risk"), chain.V2Revise("grow"), chain.V2Revise("keys"), chain.V2Revise("heights"), chain.V2Revise("max"), chain.V2Revise("refund"),
		chain.V2Renew("none"), chain.V2Renew("partial"), chain.V2Renew("full"), chain.V2Proof(), chain.V2Expire(),
	}
}

func run(c *vf.Ctx) {
	c.Set("rule", "(a) explicit-state DFS over the v1 and v2 contract life-cycle alphabets (formation shapes, six revision kinds, three renewal shapes, proof, expiration; all ordered tuples of <=K actions per block incl. form+revise, revise+revise, revise+resolve, resolve+resolve; reverts); oracle on every state: store == reference ledger, i.e. every contract resolved at most once, payouts (ids, values, addresses, maturity) == valid outputs of the LATEST accepted revision on proof / final outputs + rollover on renewal / missed outputs on expiry; at every state with a contract the static-rule attack menu (each with an accepted control); (b) for every file shape F and every challenge index i (contracts re-salted until every index has been challenged) in the three v1 leaf eras and v2: honest proof accepted; proof of every other leaf, flipped data bit, every flipped/dropped/extra proof hash, proof for another size and another contract rejected")
	// ---------------- (a) lifecycle ----------------
	type lm struct {
		net  string
		name string
		menu func(w *chain.World) []chain.Action
	}
	lms := []lm{{"v1-eras", "F1", menuV1}, {"v2-only", "F2", menuV2}, {"mixed", "F2", menuV2}}
	if !c.Quick() {
		lms = append(lms, lm{"v1-mid", "F1", menuV1}, lm{"v2-eph5", "F2", menuV2}, lm{"mixed", "F1", menuV1})
	}
	// ---------------- (b) storage proofs (first: cheap, must not be starved by the exploration) ----------------
	proofs(c)
	leafIndexSweep(c)
	proverSide(c)
	// ---------------- (a) life cycles ----------------
	variants := [][2]int{{2, 2}} // (D, K)
	if !c.Quick() {
		variants = [][2]int{{2, 2}, {3, 1}, {4, 1}}
	}
	// transaction combinatorics: two different contracts per version, every ordered pair (thorough: triple) of
	// actions merged into ONE transaction (two proofs, proof + expiration, renewal + revision of the other contract ...)
	for _, n := range []string{"mixed", "v2-only", "v1-eras"} {
		sp := chain.Spec(n)
		mm := &chain.Model{Name: "merged", Spec: sp, Opt: opt, Menu: chain.MergedMenu, H: 8, D: 2, K: 1, R: 1}
		if !c.Quick() {
			mm.Menu = chain.MergedMenu3
		}
		if sp.Name == "mixed" {
			mm.SkipStart = 3
			mm.H += 3
		}
		xm := chain.NewExplorer(c, mm, "C07")
		xm.Run()
		xm.Report(n + "/merged/")
	}
	for _, l := range lms {
		for _, v := range variants {
			if c.Expired() {
				break
			}
			sp := chain.Spec(l.net)
			m := &chain.Model{Name: l.name, Spec: sp, Opt: opt, Menu: l.menu, StaleResolve: true,
				H: vf.Pick[uint64](c, 7, 10), D: v[0], K: v[1], R: 1}
			if sp.Name == "mixed" {
				m.SkipStart = 3
				m.H += 3
			}
			m.OnState = func(x *chain.Explorer, w *chain.World, path []string) { ruleAttacks(c, x, w, path) }
			x := chain.NewExplorer(c, m, "C07")
			x.Run()
			x.Report(fmt.Sprintf("%s/%s(D=%d,K=%d)/", l.net, l.name, v[0], v[1]))
		}
	}
	c.RequireFeature("feature:v1_fc_proof", "feature:v1_fc_expire", "feature:v1_fc_revise", "feature:v2_fc_renew", "feature:v2_fc_proof", "feature:v2_fc_expire", "feature:v2_fc_revise",
		"rule_attack_rejected", "rule_control_accepted", "leaf_index_checked", "prover_proof_equals_tree_path", "proof_honest_accepted", "proof_pair_accepted", "proof_corrupt_rejected", "proof_era1", "proof_era2", "proof_era3", "proof_v2")
	c.Sample(map[string]any{"part": "b", "era": "v1 era 3", "filesize": 129, "challenge_index": 2, "honest": "accepted", "other_leaf_1": "rejected"})
}

// ruleAttacks: static contract rule violations, each properly signed so that only the rule can reject it.
func ruleAttacks(c *vf.Ctx, x *chain.Explorer, w *chain.World, path []string) {
	h := w.ChildHeight()
	try := func(name string, u chain.Use, wantAccept bool) {
		b, bs := w.BlockOfUses(u)
		err, p := x.TryBlock(w, b, bs)
		c.Distinct(w.Spec.Name, name, wantAccept)
		if p != nil {
			x.Violate("rule|panic|"+name, fmt.Sprintf("ValidateBlock panicked on %s: %v", name, p), path)
			return
		}
		if wantAccept {
			if err != nil {
				x.Violate("rule-control-rejected|"+name, fmt.Sprintf("control (rule-abiding) %s rejected at height %d: %v", name, h, err), path)
			} else {
				c.Count("rule_control_accepted", 1)
			}
		} else if err == nil {
			x.Violate("rule-violation-accepted|"+name, fmt.Sprintf("contract rule violation %q ACCEPTED at height %d", name, h), append(append([]string(nil), path...), "attack:"+name))
		} else {
			c.Count("rule_attack_rejected", 1)
		}
	}
	// formation rules (independent of existing contracts)
	one := types.NewCurrency64(1)
	if h < w.Net.HardforkV2.RequireHeight {
		bc := w.NewBlockCtx()
		if chain.V1FormAbs(h+1, h+3, 100).Do(bc) && len(bc.V1) == 1 {
			base := bc.V1[0]
			mk := func(f func(fc *types.FileContract)) chain.Use {
				t := base
				t.FileContracts = append([]types.FileContract(nil), base.FileContracts...)
				t.FileContracts[0].ValidProofOutputs = append([]types.SiacoinOutput(nil), base.FileContracts[0].ValidProofOutputs...)
				t.FileContracts[0].MissedProofOutputs = append([]types.SiacoinOutput(nil), base.FileContracts[0].MissedProofOutputs...)
				f(&t.FileContracts[0])
				t.Signatures = nil
				w.SignV1Whole(&t)
				return chain.Use{Name: "v1form", V1: &t}
			}
			try("v1 formation (control)", mk(func(fc *types.FileContract) {}), true)
			try("v1 formation valid outputs exceed payout minus tax", mk(func(fc *types.FileContract) { fc.ValidProofOutputs[0].Value = fc.ValidProofOutputs[0].Value.Add(one) }), false)
			try("v1 formation valid outputs below payout minus tax", mk(func(fc *types.FileContract) { fc.ValidProofOutputs[0].Value = fc.ValidProofOutputs[0].Value.Sub(one) }), false)
			try("v1 formation missed outputs exceed payout minus tax", mk(func(fc *types.FileContract) { fc.MissedProofOutputs[0].Value = fc.MissedProofOutputs[0].Value.Add(one) }), false)
			try("v1 formation missed outputs below payout minus tax", mk(func(fc *types.FileContract) { fc.MissedProofOutputs[0].Value = fc.MissedProofOutputs[0].Value.Sub(one) }), false)
			try("v1 formation window ends where it begins", mk(func(fc *types.FileContract) { fc.WindowEnd = fc.WindowStart }), false)
		}
	}
	if h >= w.Net.HardforkV2.AllowHeight {
		bc := w.NewBlockCtx()
		if chain.V2FormAbs(h+1, h+3, 100).Do(bc) && len(bc.V2) == 1 {
			base := bc.V2[0]
			mk := func(f func(fc *types.V2FileContract)) chain.Use {
				t := base.DeepCopy()
				fc := &t.FileContracts[0]
				f(fc)
				w.SignContract(fc, keyIdx(w, fc.RenterPublicKey), keyIdx(w, fc.HostPublicKey))
				w.SignV2(&t)
				return chain.Use{Name: "v2form", V2: &t}
			}
			try("v2 formation (control)", mk(func(fc *types.V2FileContract) {}), true)
			try("v2 formation missed host value exceeds host output", mk(func(fc *types.V2FileContract) { fc.MissedHostValue = fc.HostOutput.Value.Add(one) }), false)
			try("v2 formation missed host value equals host output (control)", mk(func(fc *types.V2FileContract) { fc.MissedHostValue = fc.HostOutput.Value }), true)
			try("v2 formation total collateral exceeds host output", mk(func(fc *types.V2FileContract) { fc.TotalCollateral = fc.HostOutput.Value.Add(one) }), false)
			try("v2 formation filesize exceeds capacity", mk(func(fc *types.V2FileContract) { fc.Filesize = fc.Capacity + 1 }), false)
			try("v2 formation expiration not after proof height", mk(func(fc *types.V2FileContract) { fc.ExpirationHeight = fc.ProofHeight }), false)
		}
	}
	if h < w.Net.HardforkV2.RequireHeight {
		for _, e := range w.Ref.Live(chain.KFC) {
			fce, ok := w.Store.FC[types.FileContractID(e.ID)]
			if !ok {
				continue
			}
			fc := fce.FileContract
			if fc.WindowStart >= h && fc.RevisionNumber >= math.MaxUint64-2 && len(fc.ValidProofOutputs) >= 2 {
				// a finalised contract (revision number at / next to 2^64-1): no revision number is acceptable any more
				// except a strictly larger one; in particular nothing after 2^64-1
				for _, rn := range []uint64{0, 1, fc.RevisionNumber - 1, fc.RevisionNumber} {
					rev := fc
					rev.ValidProofOutputs = append([]types.SiacoinOutput(nil), fc.ValidProofOutputs...)
					rev.MissedProofOutputs = append([]types.SiacoinOutput(nil), fc.MissedProofOutputs...)
					rev.RevisionNumber = rn
					try("v1 revision of a finalised contract does not raise the revision number", w.UseV1Revise(fce, rev, 0), false)
				}
				if v2rn := fc.RevisionNumber; v2rn < math.MaxUint64 {
					rev := fc
					rev.ValidProofOutputs = append([]types.SiacoinOutput(nil), fc.ValidProofOutputs...)
					rev.MissedProofOutputs = append([]types.SiacoinOutput(nil), fc.MissedProofOutputs...)
					rev.RevisionNumber = math.MaxUint64
					try("v1 revision to the final revision number (control)", w.UseV1Revise(fce, rev, 0), true)
				}
			}
			if fc.WindowStart >= h && fc.RevisionNumber < math.MaxUint64-2 && len(fc.ValidProofOutputs) >= 2 && len(fc.MissedProofOutputs) >= 2 {
				mk := func(f func(rev *types.FileContract)) chain.Use {
					rev := fc
					rev.ValidProofOutputs = append([]types.SiacoinOutput(nil), fc.ValidProofOutputs...)
					rev.MissedProofOutputs = append([]types.SiacoinOutput(nil), fc.MissedProofOutputs...)
					rev.RevisionNumber++
					f(&rev)
					return w.UseV1Revise(fce, rev, 0)
				}
				one := types.NewCurrency64(1)
				try("v1 revision (control)", mk(func(rev *types.FileContract) {}), true)
				try("v1 revision changes valid payout sum", mk(func(rev *types.FileContract) { rev.ValidProofOutputs[1].Value = rev.ValidProofOutputs[1].Value.Add(one) }), false)
				try("v1 revision changes missed payout sum", mk(func(rev *types.FileContract) { rev.MissedProofOutputs[0].Value = rev.MissedProofOutputs[0].Value.Sub(one) }), false)
				try("v1 revision keeps revision number", mk(func(rev *types.FileContract) { rev.RevisionNumber = fc.RevisionNumber }), false)
				if fc.RevisionNumber > 0 {
					try("v1 revision lowers revision number", mk(func(rev *types.FileContract) { rev.RevisionNumber = fc.RevisionNumber - 1 }), false)
				}
				try("v1 revision window ends before it begins", mk(func(rev *types.FileContract) { rev.WindowEnd = rev.WindowStart }), false)
				try("v1 revision moves value between valid outputs (control)", mk(func(rev *types.FileContract) {
					rev.ValidProofOutputs[0].Value = rev.ValidProofOutputs[0].Value.Sub(one)
					rev.ValidProofOutputs[1].Value = rev.ValidProofOutputs[1].Value.Add(one)
				}), true)
			}
			if fc.WindowStart <= h && h < fc.WindowEnd {
				if u, ok := w.UseV1Proof(fce, fc); ok {
					try("v1 storage proof (control)", u, true)
					two := *u.V1
					two.StorageProofs = append(append([]types.StorageProof(nil), two.StorageProofs...), two.StorageProofs[0])
					u2 := u
					u2.V1 = &two
					try("v1 two proofs for one contract in one transaction", u2, false)
					wo := *u.V1
					wo.ArbitraryData = nil
					bc := w.NewBlockCtx()
					if p, ok := bc.PickSC(func(cl int) bool { return cl == chain.AddrV1 }, types.Siacoins(1)); ok {
						pay := w.UseV1SC(p, 9)
						m := *pay.V1
						m.StorageProofs = u.V1.StorageProofs
						m.Signatures = nil
						w.SignV1Whole(&m)
						u3 := chain.Use{Name: "proof+outputs", V1: &m, SuppSC: pay.SuppSC, SuppFC: u.SuppFC}
						try("v1 storage proof and siacoin outputs in one transaction", u3, false)
					}
				}
			}
		}
	}
	if h >= w.Net.HardforkV2.AllowHeight {
		for _, e := range w.Ref.Live(chain.KV2FC) {
			fce, ok := w.Store.V2FC[types.FileContractID(e.ID)]
			if !ok {
				continue
			}
			fc := fce.V2FileContract
			if fc.ProofHeight >= h && fc.RevisionNumber < math.MaxUint64-2 && fc.MissedHostValue.Cmp(fc.HostOutput.Value) <= 0 {
				mk := func(f func(rev *types.V2FileContract)) chain.Use {
					rev := fc
					f(&rev)
					return w.UseV2Revise(fce, rev, 1)
				}
				one := types.NewCurrency64(1)
				try("v2 revision (control)", mk(func(rev *types.V2FileContract) {}), true)
				try("v2 revision changes total value", mk(func(rev *types.V2FileContract) { rev.RenterOutput.Value = rev.RenterOutput.Value.Add(one) }), false)
				try("v2 revision raises missed host value", mk(func(rev *types.V2FileContract) { rev.MissedHostValue = rev.MissedHostValue.Add(one) }), false)
				try("v2 revision changes total collateral", mk(func(rev *types.V2FileContract) { rev.TotalCollateral = rev.TotalCollateral.Add(one) }), false)
				try("v2 revision lowers total collateral", mk(func(rev *types.V2FileContract) {
					if !rev.TotalCollateral.IsZero() {
						rev.TotalCollateral = rev.TotalCollateral.Sub(one)
					} else {
						rev.TotalCollateral = one
					}
				}), false)
				if h >= w.Net.HardforkV2.EphemeralOutputHeight && !fc.MissedHostValue.IsZero() && fc.HostOutput.Value.Cmp(fc.MissedHostValue) >= 0 {
					try("v2 revision leaves the missed host value above the host output", mk(func(rev *types.V2FileContract) {
						d := rev.HostOutput.Value.Sub(rev.MissedHostValue).Add(one)
						rev.HostOutput.Value = rev.HostOutput.Value.Sub(d)
						rev.RenterOutput.Value = rev.RenterOutput.Value.Add(d)
					}), false)
					try("v2 revision lowers the host output exactly to the missed host value (control)", mk(func(rev *types.V2FileContract) {
						d := rev.HostOutput.Value.Sub(rev.MissedHostValue)
						rev.HostOutput.Value = rev.HostOutput.Value.Sub(d)
						rev.RenterOutput.Value = rev.RenterOutput.Value.Add(d)
					}), true)
				}
				// the same static rules against the contract AS REVISED EARLIER IN THE BLOCK (two transactions): a first
				// revision lowers the missed host value / raises the capacity, a second one goes back to the pre-block value
				if fc.RevisionNumber < math.MaxUint64-4 {
					second := func(r1 types.V2FileContract, f func(rev *types.V2FileContract)) chain.Use {
						first := w.UseV2Revise(fce, r1, 1)
						cur := *first.V2
						rev := cur.FileContractRevisions[0].Revision
						f(&rev)
						u := w.UseV2Revise(fce, rev, 1)
						u.Before = []chain.Use{first}
						return u
					}
					if !fc.MissedHostValue.IsZero() {
						r1 := fc
						r1.MissedHostValue = r1.MissedHostValue.Sub(one)
						try("v2 revision after an in-block revision that lowered the missed host value (control)", second(r1, func(rev *types.V2FileContract) {}), true)
						try("v2 revision raises the missed host value back to its pre-block value after an in-block revision lowered it", second(r1, func(rev *types.V2FileContract) { rev.MissedHostValue = fc.MissedHostValue }), false)
					}
					r1 := fc
					r1.Capacity += 64
					try("v2 revision after an in-block revision that raised the capacity (control)", second(r1, func(rev *types.V2FileContract) {}), true)
					try("v2 revision lowers the capacity back to its pre-block value after an in-block revision raised it", second(r1, func(rev *types.V2FileContract) { rev.Capacity = fc.Capacity }), false)
				}
				try("v2 revision expiration not after proof height", mk(func(rev *types.V2FileContract) { rev.ExpirationHeight = rev.ProofHeight }), false)
				try("v2 revision filesize exceeds capacity", mk(func(rev *types.V2FileContract) { rev.Filesize = rev.Capacity + 1 }), false)
				try("v2 revision decreases capacity", mk(func(rev *types.V2FileContract) {
					if rev.Capacity > 0 {
						rev.Capacity--
						if rev.Filesize > rev.Capacity {
							rev.Filesize = rev.Capacity
						}
					} else {
						rev.RevisionNumber = fc.RevisionNumber - 1 // nothing to decrease: fall back to a revision-number violation
					}
				}), false)
				{
					u := w.UseV2Revise(fce, fc, 0)
					try("v2 revision keeps revision number", u, false)
				}
				if fc.RevisionNumber < math.MaxUint64-1 {
					// finalised earlier in the block (revision number 2^64-1): nothing may follow
					fin := w.UseV2Revise(fce, fc, math.MaxUint64-fc.RevisionNumber)
					try("v2 revision to the final revision number (control)", fin, true)
					for _, rn := range []uint64{0, fc.RevisionNumber + 1, math.MaxUint64 - 1, math.MaxUint64} {
						cur := fc
						cur.RevisionNumber = rn
						u := w.UseV2Revise(fce, cur, 0)
						u.Before = []chain.Use{fin}
						try("v2 revision after the final revision number", u, false)
					}
				}
				try("v2 revision moves value renter->host (control)", mk(func(rev *types.V2FileContract) {
					if !rev.RenterOutput.Value.IsZero() {
						rev.RenterOutput.Value = rev.RenterOutput.Value.Sub(one)
						rev.HostOutput.Value = rev.HostOutput.Value.Add(one)
					}
				}), true)
				// renewals
				bc := w.NewBlockCtx()
				if f, ok := bc.PickSC(func(cl int) bool { return cl == chain.AddrACS || cl == chain.AddrV2 }, types.Siacoins(400)); ok {
					if u, ok := w.UseV2Renew(fce, f); ok {
						try("v2 renewal (control)", u, true)
						tamper := func(name string, g func(rn *types.V2FileContractRenewal)) {
							t := u.V2.DeepCopy()
							rn := *t.FileContractResolutions[0].Resolution.(*types.V2FileContractRenewal)
							g(&rn)
							// re-sign with the contract's keys so that only the rule can reject
							ri, hi := keyIdx(w, fc.RenterPublicKey), keyIdx(w, fc.HostPublicKey)
							w.SignRenewal(&rn, ri, hi)
							t.FileContractResolutions[0].Resolution = &rn
							// re-balance the funding: outputs = inputs - (new contract cost - rollover)
							w.SignV2(&t)
							try(name, chain.Use{Name: name, V2: &t}, false)
						}
						tamper("v2 renewal final outputs exceed the old contract value", func(rn *types.V2FileContractRenewal) { rn.FinalRenterOutput.Value = rn.FinalRenterOutput.Value.Add(one) })
						tamper("v2 renewal pays out less than the old contract value", func(rn *types.V2FileContractRenewal) {
							if !rn.FinalHostOutput.Value.IsZero() {
								rn.FinalHostOutput.Value = rn.FinalHostOutput.Value.Sub(one)
							} else {
								rn.FinalRenterOutput.Value = rn.FinalRenterOutput.Value.Add(one)
							}
						})
						// rollover bound: a renewal into a much SMALLER contract, funded by rollover alone. Exactly the new
						// contract's cost (its outputs + its tax) may be rolled over; one hasting more would leave the
						// transaction as an ordinary output (no maturity delay, outside final outputs and rollover)
						small := func(excess types.Currency) (chain.Use, bool) {
							nc := w.NewV2Contract(h, 2, 2, fc.Filesize)
							nc.RenterPublicKey, nc.HostPublicKey = fc.RenterPublicKey, fc.HostPublicKey
							nc.RenterOutput.Value, nc.HostOutput.Value = types.Siacoins(10), types.Siacoins(5)
							nc.MissedHostValue, nc.TotalCollateral = types.Siacoins(5), types.Siacoins(5)
							cost := nc.RenterOutput.Value.Add(nc.HostOutput.Value).Add(w.CS.V2FileContractTax(nc))
							roll := cost.Add(excess)
							if fc.RenterOutput.Value.Cmp(roll) < 0 {
								return chain.Use{}, false
							}
							rn := types.V2FileContractRenewal{NewContract: nc, RenterRollover: roll,
								FinalRenterOutput: types.SiacoinOutput{Value: fc.RenterOutput.Value.Sub(roll), Address: fc.RenterOutput.Address},
								FinalHostOutput:   types.SiacoinOutput{Value: fc.HostOutput.Value, Address: fc.HostOutput.Address}}
							w.SignRenewal(&rn, keyIdx(w, fc.RenterPublicKey), keyIdx(w, fc.HostPublicKey))
							t := types.V2Transaction{FileContractResolutions: []types.V2FileContractResolution{{Parent: fce.Copy(), Resolution: &rn}}}
							if !excess.IsZero() {
								t.SiacoinOutputs = []types.SiacoinOutput{{Value: excess, Address: w.Keys.Addr(chain.AddrV2)}}
							}
							return chain.Use{Name: "v2renew-small", V2: &t, Resolves: true}, true
						}
						if u0, ok := small(types.ZeroCurrency); ok {
							try("v2 renewal into a smaller contract funded by rollover alone (control)", u0, true)
							for _, ex := range []types.Currency{one, types.Siacoins(1), types.Siacoins(5)} {
								if ux, ok := small(ex); ok {
									try("v2 renewal rolls over more than the new contract costs", ux, false)
								}
							}
						}
						tamper("v2 renewal changes the renter key", func(rn *types.V2FileContractRenewal) { rn.NewContract.RenterPublicKey = w.Keys.Pub[3] })
						tamper("v2 renewal new contract has passed proof height", func(rn *types.V2FileContractRenewal) {
							if h > 0 {
								rn.NewContract.ProofHeight = h - 1
							}
						})
					}
				}
			}
		}
	}
}

func keyIdx(w *chain.World, pk types.PublicKey) int {
	for i := range w.Keys.Pub {
		if w.Keys.Pub[i] == pk {
			return i
		}
	}
	return 0
}

// ---------------- (b) storage proofs ----------------

type proofCase struct {
	Version  string `json:"version"`
	Network  string `json:"network"`
	Era      string `json:"era"`
	Filesize uint64 `json:"filesize"`
	Index    uint64 `json:"challenge_index"`
	Salt     int    `json:"salt"`
	Seed     int64  `json:"seed"`
	What     string `json:"what"`
}

func fileShapes(c *vf.Ctx) []uint64 {
	s := []uint64{0, 1, 63, 64, 65, 127, 128, 129, 191, 192, 193}
	for n := uint64(4); n <= 9; n++ {
		s = append(s, 64*n-1, 64*n, 64*n+1)
	}
	if !c.Quick() {
		for n := uint64(10); n <= 17; n++ {
			s = append(s, 64*n-1, 64*n, 64*n+1)
		}
		s = append(s, 64*33, 64*64, 64*65+7)
	}
	return s
}

func numLeaves(F uint64) uint64 { return (F + 63) / 64 }

// formHeights: formation height per era label of part (b) on network v1-early (proof two blocks later).
var formHeights = map[string]uint64{"era1": 2, "era2": 7, "era3": 11, "v2": 2, "era1-last": 5, "era2-first": 6, "era2-last": 9, "era3-first": 10}

// eraOf strips the boundary suffix of an era label.
func eraOf(era string) string {
	if len(era) > 4 && era[:3] == "era" {
		return era[:4]
	}
	return era
}

func proofs(c *vf.Ctx) {
	keys := chain.NewKeys(c.Seed)
	type job struct {
		version string
		net     string
		era     string
		formAt  uint64 // height of the formation block
		F       uint64
	}
	var jobs []job
	for _, F := range fileShapes(c) {
		// v1-early: Tax=8, StorageProof=12. formation at height f, window start f+2, proof at f+2.
		jobs = append(jobs, job{"v1", "v1-early", "era1", 2, F})  // proof at height 4 (< Tax)
		jobs = append(jobs, job{"v1", "v1-early", "era2", 7, F})  // proof at height 9 (Tax<=h<StorageProof)
		jobs = append(jobs, job{"v1", "v1-early", "era3", 11, F}) // proof at height 13
		jobs = append(jobs, job{"v2", "v2-only", "v2", 2, F})
	}
	// the leaf rules change AT two heights (Tax=8, StorageProof=12): proofs in the last block of an era and in the first
	// block of the next, for the shapes the eras treat differently (empty file, whole-leaf files) and their neighbours
	for _, F := range []uint64{0, 1, 64, 65, 128, 192, 200} {
		for _, e := range []string{"era1-last", "era2-first", "era2-last", "era3-first"} {
			jobs = append(jobs, job{"v1", "v1-early", e, formHeights[e], F})
		}
	}
	vf.ParallelFor(len(jobs), func(ji int) {
		j := jobs[ji]
		if c.Expired() {
			return
		}
		base, p := chain.NewWorld(chain.Spec(j.net), keys, chain.DefaultAlloc(keys), chain.Options{CheckLedger: true})
		if p != nil {
			c.HarnessError("genesis: %v", p)
			return
		}
		for base.ChildHeight() < j.formAt {
			b, bs := base.BuildBlock(nil, nil, chain.BlockOpts{})
			if err, p := base.Apply(b, bs); err != nil || p != nil {
				c.HarnessError("prefix block: %v %v", err, p)
				return
			}
		}
		n := numLeaves(j.F)
		want := n
		if want == 0 {
			want = 1
		}
		covered := map[uint64]bool{}
		for salt := 0; uint64(len(covered)) < want && salt < int(40*want+40); salt++ {
			idx, ok := oneProof(c, base, j.version, j.era, j.F, salt, covered)
			if !ok {
				return
			}
			covered[idx] = true
		}
		if uint64(len(covered)) < want {
			c.NotExhaustive(fmt.Sprintf("storage proofs: not every challenge index reached for F=%d (%d of %d)", j.F, len(covered), want))
		}
		c.Count("proof_"+j.era, 1)
		// two proofs in one transaction: this job's size paired with every size of a small set, several salts
		if j.version == "v1" && j.F <= 200 {
			for _, FB := range []uint64{36, 64, 100, 129} {
				for salt := 0; salt < vf.Pick(c, 4, 12); salt++ {
					pairProofs(c, base, j.era, j.F, FB, salt)
				}
			}
		}
	})
}

// pairProofs: ONE v1 transaction carrying the honest storage proofs of TWO different contracts, in both orders (state
// shared between the proofs of a transaction - a scratch buffer, a cached window ID - shows up only here).
func pairProofs(c *vf.Ctx, base *chain.World, era string, FA, FB uint64, salt int) {
	w := base.Clone()
	w.Nonce = uint64(5000 + salt)
	pc := proofCase{Version: "v1-pair", Network: w.Spec.Name, Era: era, Filesize: FA*100000 + FB, Salt: salt, Seed: w.Keys.Seed}
	bc := w.NewBlockCtx()
	if !chain.V1FormSalted(2, 2, FA, salt).Do(bc) || !chain.V1FormSalted(2, 2, FB, salt+1000).Do(bc) {
		return
	}
	b, bs := w.BuildBlock(bc.V1, bc.V2, chain.BlockOpts{})
	if err, p := w.Apply(b, bs); err != nil || p != nil {
		c.HarnessError("pair formation block rejected: %v %v", err, p)
		return
	}
	b, bs = w.BuildBlock(nil, nil, chain.BlockOpts{})
	if err, p := w.Apply(b, bs); err != nil || p != nil {
		c.HarnessError("pair window block rejected: %v %v", err, p)
		return
	}
	var fces []types.FileContractElement
	for _, id := range chain.SortedIDs(w.Store.FC) {
		fces = append(fces, w.Store.FC[types.FileContractID(id)])
	}
	if len(fces) != 2 {
		return
	}
	type one struct {
		sp    types.StorageProof
		quirk bool
	}
	mk := func(fce types.FileContractElement) one {
		fc := fce.FileContract
		windowID := w.Hist[fc.WindowStart-1].B.ID()
		idx := w.CS.StorageProofLeafIndex(fc.Filesize, windowID, fce.ID)
		leaf, proof := spec.FileProof(spec.FileData(int(fc.Filesize), byte(fc.Filesize%251)), int(idx))
		n := numLeaves(fc.Filesize)
		q := (eraOf(era) == "era2" && fc.Filesize > 0 && fc.Filesize%64 == 0 && idx == n-1) || (eraOf(era) != "era3" && fc.Filesize == 0)
		return one{types.StorageProof{ParentID: fce.ID, Leaf: leaf, Proof: proof}, q}
	}
	a, bb := mk(fces[0]), mk(fces[1])
	if a.quirk || bb.quirk {
		c.Count("proof_legacy_quirk_unspecified", 1)
		return
	}
	for _, order := range [][2]one{{a, bb}, {bb, a}} {
		t := types.Transaction{StorageProofs: []types.StorageProof{order[0].sp, order[1].sp}}
		u := chain.Use{Name: "v1proof-pair", V1: &t, Resolves: true, SuppFC: []types.FileContractElement{fces[0], fces[1]}}
		blk, sup := w.BlockOfUses(u)
		err, p := w.Clone().Apply(blk, sup)
		c.Count("evaluations", 1)
		c.Count("transitions", 1)
		c.Distinct("pair", era, FA, FB, salt, order[0].sp.ParentID == a.sp.ParentID)
		if p != nil {
			c.Violate("C07|storage-proof|pair|"+p.Sig, p.Desc, pc)
		} else if err != nil {
			c.Violate("C07|storage-proof|honest-rejected|two proofs in one transaction|"+era, fmt.Sprintf("[v1 %s, file sizes %d and %d, salt %d] one transaction with the honest proofs of two contracts rejected: %v", era, FA, FB, salt, err), pc)
		} else {
			c.Count("proof_pair_accepted", 1)
		}
	}
}

// oneProof forms a contract (salted), mines the window block, and runs the proof menu. Returns the challenged index.
func oneProof(c *vf.Ctx, base *chain.World, version, era string, F uint64, salt int, covered map[uint64]bool) (uint64, bool) {
	w := base.Clone()
	w.Nonce = uint64(1000 + salt)
	pc := proofCase{Version: version, Network: w.Spec.Name, Era: era, Filesize: F, Salt: salt, Seed: w.Keys.Seed}
	fail := func(sig, desc string) {
		c.Violate("C07|storage-proof|"+sig, fmt.Sprintf("[%s %s, filesize %d, challenge index %d, salt %d] %s", version, era, F, pc.Index, salt, desc), pc)
	}
	bc := w.NewBlockCtx()
	var act chain.Action
	if version == "v1" {
		act = chain.V1FormSalted(2, 2, F, salt)
	} else {
		act = chain.V2FormSalted(1, 3, F, salt)
	}
	if !act.Do(bc) {
		c.HarnessError("cannot form contract for storage-proof case %+v", pc)
		return 0, false
	}
	b, bs := w.BuildBlock(bc.V1, bc.V2, chain.BlockOpts{})
	if err, p := w.Apply(b, bs); err != nil || p != nil {
		c.HarnessError("formation block rejected: %v %v", err, p)
		return 0, false
	}
	// mine until the proof is admissible: v1: window start = form+2 (block form+1 is the window block); v2: proof height = form+1, provable from form+2
	for i := 0; i < 1; i++ {
		b, bs := w.BuildBlock(nil, nil, chain.BlockOpts{})
		if err, p := w.Apply(b, bs); err != nil || p != nil {
			c.HarnessError("window block rejected: %v %v", err, p)
			return 0, false
		}
	}
	data := spec.FileData(int(F), byte(F%251))
	try := func(u chain.Use) (accepted bool, panicked any) {
		b, bs := w.BlockOfUses(u)
		err, p := w.Clone().Apply(b, bs)
		c.Count("evaluations", 1)
		c.Count("transitions", 1)
		if p != nil {
			return false, p
		}
		return err == nil, nil
	}
	n := numLeaves(F)
	if version == "v1" {
		var fce types.FileContractElement
		for _, e := range w.Store.FC {
			fce = e
		}
		fc := fce.FileContract
		windowID := w.Hist[fc.WindowStart-1].B.ID()
		idx := w.CS.StorageProofLeafIndex(fc.Filesize, windowID, fce.ID)
		pc.Index = idx
		if covered[idx] {
			return idx, true
		}
		mk := func(leaf [64]byte, proof []types.Hash256) chain.Use {
			t := types.Transaction{StorageProofs: []types.StorageProof{{ParentID: fce.ID, Leaf: leaf, Proof: proof}}}
			return chain.Use{Name: "v1proof", V1: &t, Resolves: true, SuppFC: []types.FileContractElement{fce}}
		}
		leaf, proof := spec.FileProof(data, int(idx))
		acc, p := try(mk(leaf, proof))
		quirk := (eraOf(era) == "era2" && F > 0 && F%64 == 0 && idx == n-1) || (eraOf(era) != "era3" && F == 0)
		switch {
		case p != nil:
			pc.What = "honest"
			fail("honest-panic", fmt.Sprintf("%v", p))
		case quirk:
			c.Count("proof_legacy_quirk_unspecified", 1)
		case !acc:
			pc.What = "honest"
			fail("honest-rejected|"+version+"-"+era, "honest storage proof built from the real data rejected")
		default:
			c.Count("proof_honest_accepted", 1)
		}
		if F == 0 && eraOf(era) == "era3" {
			return idx, true // no proof data needed: nothing to corrupt
		}
		corrupt := func(what string, u chain.Use) {
			acc, p := try(u)
			c.Distinct(version, era, F, idx, what)
			if p != nil {
				pc.What = what
				fail("corrupt-panic", fmt.Sprintf("%s: %v", what, p))
			} else if acc && !(eraOf(era) != "era3" && F == 0) {
				// (the middle-era quirk - the whole last leaf of a file that is a multiple of 64 bytes is verified as an
				// EMPTY leaf, so the honest proof of real data is rejected - does not make any other proof acceptable either;
				// only the empty file before the storage-proof fork is left unasserted)
				pc.What = what
				fail("corrupt-accepted|"+version+"-"+eraOf(era)+"|"+what, "corrupted storage proof ("+what+") ACCEPTED")
			} else if !acc {
				c.Count("proof_corrupt_rejected", 1)
			}
		}
		for j := uint64(0); j < n && j < 40; j++ {
			if j != idx {
				l, pr := spec.FileProof(data, int(j))
				what := "other leaf"
				if len(pr) < len(proof) {
					// leaf j sits in a smaller right-hand subtree of the unbalanced tree: its proof is shorter than the honest one
					what = "other leaf with a shorter proof (from a smaller right-hand subtree)"
				}
				corrupt(what, mk(l, pr))
			}
		}
		if F > 0 {
			l2 := leaf
			l2[0] ^= 1
			corrupt("flipped data bit", mk(l2, proof))
			if n > 1 {
				corrupt("junk leaf without any Merkle path", mk([64]byte{0xDE, 0xAD, 0xBE, 0xEF}, nil))
			}
		}
		for k := range proof {
			p2 := append([]types.Hash256(nil), proof...)
			p2[k][7] ^= 0x10
			corrupt("flipped proof hash", mk(leaf, p2))
		}
		if len(proof) > 0 {
			corrupt("dropped last proof hash", mk(leaf, proof[:len(proof)-1]))
			corrupt("dropped first proof hash", mk(leaf, proof[1:]))
		}
		corrupt("extra proof hash", mk(leaf, append(append([]types.Hash256(nil), proof...), types.Hash256{9})))
		for _, F2 := range []uint64{F + 64, F + 1} {
			if numLeaves(F2) == n && F2 != F+64 {
				continue // same tree shape and same leaves (only padding differs) is not "another size" for the tree
			}
			d2 := spec.FileData(int(F2), byte(F%251))
			if int(idx) < int(numLeaves(F2)) {
				l, pr := spec.FileProof(d2, int(idx))
				corrupt("proof built for another size", mk(l, pr))
			}
		}
		return idx, true
	}
	// v2
	var fce types.V2FileContractElement
	for _, e := range w.Store.V2FC {
		fce = e
	}
	fc := fce.V2FileContract
	ci := w.Store.CI[fc.ProofHeight].Copy()
	idx := w.CS.StorageProofLeafIndex(fc.Filesize, ci.ChainIndex.ID, fce.ID)
	pc.Index = idx
	if covered[idx] {
		return idx, true
	}
	mk := func(leaf [64]byte, proof []types.Hash256) chain.Use {
		t := types.V2Transaction{FileContractResolutions: []types.V2FileContractResolution{{Parent: fce.Copy(), Resolution: &types.V2StorageProof{ProofIndex: ci.Copy(), Leaf: leaf, Proof: proof}}}}
		return chain.Use{Name: "v2proof", V2: &t, Resolves: true}
	}
	leaf, proof := spec.FileProof(data, int(idx))
	acc, p := try(mk(leaf, proof))
	switch {
	case p != nil:
		pc.What = "honest"
		fail("honest-panic", fmt.Sprintf("%v", p))
	case !acc:
		pc.What = "honest"
		fail("honest-rejected|v2", "honest storage proof built from the real data rejected")
	default:
		c.Count("proof_honest_accepted", 1)
	}
	if F == 0 {
		return idx, true
	}
	corrupt := func(what string, u chain.Use) {
		acc, p := try(u)
		c.Distinct(version, era, F, idx, what)
		if p != nil {
			pc.What = what
			fail("corrupt-panic", fmt.Sprintf("%s: %v", what, p))
		} else if acc {
			pc.What = what
			fail("corrupt-accepted|v2|"+what, "corrupted storage proof ("+what+") ACCEPTED")
		} else {
			c.Count("proof_corrupt_rejected", 1)
		}
	}
	for j := uint64(0); j < n && j < 40; j++ {
		if j != idx {
			l, pr := spec.FileProof(data, int(j))
			corrupt("other leaf", mk(l, pr))
		}
	}
	l2 := leaf
	l2[0] ^= 1
	corrupt("flipped data bit", mk(l2, proof))
	for k := range proof {
		p2 := append([]types.Hash256(nil), proof...)
		p2[k][7] ^= 0x10
		corrupt("flipped proof hash", mk(leaf, p2))
	}
	if len(proof) > 0 {
		corrupt("dropped last proof hash", mk(leaf, proof[:len(proof)-1]))
		corrupt("dropped first proof hash", mk(leaf, proof[1:]))
	}
	d2 := spec.FileData(int(F+64), byte(F%251))
	if l, pr := spec.FileProof(d2, int(idx)); true {
		corrupt("proof built for another size", mk(l, pr))
	}
	// wrong chain index (another height): leaf index would be attacker-chosen
	if fc.ProofHeight >= 1 {
		t := mk(leaf, proof)
		sp := t.V2.FileContractResolutions[0].Resolution.(*types.V2StorageProof)
		sp.ProofIndex = w.Store.CI[fc.ProofHeight-1].Copy()
		corrupt("proof index of another height", t)
	}
	return idx, true
}

func replay(c *vf.Ctx, raw json.RawMessage) {
	var part struct {
		Part string `json:"part"`
	}
	if json.Unmarshal(raw, &part) == nil && part.Part == "leafindex" {
		leafIndexSweep(c)
		return
	}
	if part.Part == "prover" {
		proverSide(c)
		return
	}
	var pc proofCase
	if err := json.Unmarshal(raw, &pc); err == nil && pc.Version == "v1-pair" {
		keys := chain.NewKeys(pc.Seed)
		base, p := chain.NewWorld(chain.Spec(pc.Network), keys, chain.DefaultAlloc(keys), chain.Options{CheckLedger: true})
		if p != nil {
			c.HarnessError("genesis: %v", p)
			return
		}
		formAt := formHeights[pc.Era]
		for base.ChildHeight() < formAt {
			b, bs := base.BuildBlock(nil, nil, chain.BlockOpts{})
			base.Apply(b, bs)
		}
		c.Count("states", 1)
		pairProofs(c, base, pc.Era, pc.Filesize/100000, pc.Filesize%100000, pc.Salt)
		return
	}
	if err := json.Unmarshal(raw, &pc); err == nil && pc.Version != "" {
		keys := chain.NewKeys(pc.Seed)
		base, p := chain.NewWorld(chain.Spec(pc.Network), keys, chain.DefaultAlloc(keys), chain.Options{CheckLedger: true})
		if p != nil {
			c.HarnessError("genesis: %v", p)
			return
		}
		formAt := formHeights[pc.Era]
		for base.ChildHeight() < formAt {
			b, bs := base.BuildBlock(nil, nil, chain.BlockOpts{})
			base.Apply(b, bs)
		}
		c.Count("states", 1)
		oneProof(c, base, pc.Version, pc.Era, pc.Filesize, pc.Salt, map[uint64]bool{})
		return
	}
	var tc chain.TraceCase
	json.Unmarshal(raw, &tc)
	menus := func(name string) func(w *chain.World) []chain.Action {
		if name == "F1" {
			return menuV1
		}
		return menuV2
	}
	tr := tc.Trace
	for len(tr) > 0 && len(tr[len(tr)-1]) > 7 && tr[len(tr)-1][:7] == "attack:" {
		tr = tr[:len(tr)-1]
	}
	tc.Trace = tr
	raw2, _ := json.Marshal(tc)
	if w := chain.ReplayTraceWorld(c, raw2, menus, "C07", opt); w != nil {
		m := &chain.Model{Name: tc.Model, Spec: chain.Spec(tc.Network), Menu: menus(tc.Model)}
		ruleAttacks(c, chain.NewExplorer(c, m, "C07"), w, tr)
	}
}
