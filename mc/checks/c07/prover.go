package c07

import (
	"fmt"

	rhp2 "go.sia.tech/core/rhp/v2"
	"go.sia.tech/core/types"
	"verifmc/spec"
	"verifmc/vf"
)

// proverSide: the storage proof a host builds with the library (segment proof inside the challenged sector with
// BuildProof, sector-level proof with BuildSectorRangeProof, each re-ordered for consensus with ConvertProofOrdering and concatenated) must be
// the bottom-up sibling path of the challenged leaf in the file's Merkle tree - for every sector count n (unbalanced
// trees for n not a power of two), every sector of the file and a boundary set of segments. The expected path comes
// from the naive reference tree: the balanced path inside the sector followed by the path over the sector roots.
func proverSide(c *vf.Ctx) {
	maxSectors := vf.Pick(c, 7, 12)
	// one sector content per residue class, distinct data in every segment
	mkSector := func(salt byte) *[rhp2.SectorSize]byte {
		s := new([rhp2.SectorSize]byte)
		copy(s[:], spec.FileData(rhp2.SectorSize, salt))
		return s
	}
	type sectorTree struct {
		data   *[rhp2.SectorSize]byte
		levels [][]types.Hash256 // levels[0] = leaf hashes ... last = [root]
	}
	build := func(salt byte) *sectorTree {
		st := &sectorTree{data: mkSector(salt)}
		lv := make([]types.Hash256, rhp2.LeavesPerSector)
		for i := range lv {
			lv[i] = spec.SegLeaf(st.data[i*64 : i*64+64])
		}
		st.levels = append(st.levels, lv)
		for len(lv) > 1 {
			nx := make([]types.Hash256, len(lv)/2)
			for i := range nx {
				nx[i] = spec.Node(lv[2*i], lv[2*i+1])
			}
			st.levels = append(st.levels, nx)
			lv = nx
		}
		return st
	}
	trees := make([]*sectorTree, maxSectors)
	vf.ParallelFor(maxSectors, func(i int) { trees[i] = build(byte(i + 1)) })
	segs := []uint64{0, 1, 2, 3, 4, 5, 31, 32, 33, 255, 256, 32767, 32768, 65534, 65535}
	for n := 1; n <= maxSectors; n++ {
		roots := make([]types.Hash256, n)
		for i := 0; i < n; i++ {
			roots[i] = trees[i].levels[len(trees[i].levels)-1][0]
		}
		for s := 0; s < n; s++ {
			for _, seg := range segs {
				// reference path
				var want []types.Hash256
				idx := seg
				for _, lv := range trees[s].levels[:len(trees[s].levels)-1] {
					want = append(want, lv[idx^1])
					idx >>= 1
				}
				want = append(want, spec.TreeProof(roots, s)...)
				// library prover
				var got []types.Hash256
				pv, _ := vf.Try(func() {
					// as a host does it: each part converted with its own index, then concatenated
					segProof := rhp2.ConvertProofOrdering(rhp2.BuildProof(trees[s].data, seg, seg+1, nil), seg)
					secProof := rhp2.ConvertProofOrdering(rhp2.BuildSectorRangeProof(roots, uint64(s), uint64(s)+1), uint64(s))
					got = append(segProof, secProof...)
				})
				c.Count("evaluations", 1)
				c.Distinct("prover", n, s, seg)
				cs := map[string]any{"part": "prover", "sectors": n, "sector": s, "segment": seg, "seed": c.Seed}
				switch {
				case pv != nil:
					c.Violate("C07|prover|panic", fmt.Sprintf("building the storage proof for sector %d of %d, segment %d panicked: %v", s, n, seg, pv), cs)
				case len(got) != len(want):
					c.Violate("C07|prover|proof-differs-from-tree-path", fmt.Sprintf("file of %d sectors, sector %d, segment %d: the library's consensus-ordered proof has %d hashes, the leaf's path in the file tree has %d", n, s, seg, len(got), len(want)), cs)
				default:
					same := true
					for i := range got {
						same = same && got[i] == want[i]
					}
					if !same {
						c.Violate("C07|prover|proof-differs-from-tree-path", fmt.Sprintf("file of %d sectors, sector %d, segment %d: the library's consensus-ordered proof is not the leaf's bottom-up sibling path", n, s, seg), cs)
					} else {
						c.Count("prover_proof_equals_tree_path", 1)
					}
				}
			}
		}
	}
}
