// Package c10: untrusted input can never crash a node. This file holds the
// DECODER half (E2+E4): every hostile variation of the C11 corpus is fed to
// every binary decoder and text entry point in a worker subprocess with an
// address-space limit. The validation half (E1 + mutation menu) hooks in at
// runValidation.
package c10

import (
	"time"
	"encoding/json"
	"os"

	"verifmc/checks/c10val"
	"verifmc/vf"
)

func init() {
	if os.Getenv(workerEnv) == "1" {
		// re-executed by the parent: serve decode jobs from stdin and exit
		workerMain()
		os.Exit(0)
	}
	vf.Register(&vf.Check{ID: "C10", Level: "fault_enumeration", Run: run, Replay: replay})
}

func run(c *vf.Ctx) {
	// validation half first: it is the smaller one, so a loaded machine cannot starve it of the shared time budget
	t0 := time.Now()
	runValidation(c)
	c.Set("validation_half_wall_s", time.Since(t0).Seconds())
	t1 := time.Now()
	runDecoders(c)
	c.Set("decoder_half_wall_s", time.Since(t1).Seconds())
}

// runValidation is the second half of C10 (validation totality: structure-aware
// mutations of valid blocks / transactions against reachable states fed to
// Validate* / ApplyBlock / RevertBlock); it lives in package c10val and shares
// the run context.
func runValidation(c *vf.Ctx) {
	c10val.Run(c)
}

func replay(c *vf.Ctx, raw json.RawMessage) {
	var probe struct {
		Half string `json:"half"`
	}
	_ = json.Unmarshal(raw, &probe)
	switch probe.Half {
	case "", "decoders":
		replayDecoder(c, raw)
	default:
		replayValidation(c, raw)
	}
}

// replayValidation is the replay hook of the validation half.
func replayValidation(c *vf.Ctx, raw json.RawMessage) {
	var cs c10val.Case
	if err := json.Unmarshal(raw, &cs); err != nil {
		c.HarnessError("bad validation case: %v", err)
		return
	}
	c10val.Replay(c, cs)
}
