package c10

// Worker side of the decoder half, plus the case enumeration shared with the
// parent. The worker is the same vcheck binary re-executed with
// VERIF_C10_WORKER=1; it limits its own address space (RLIMIT_AS = 4 GiB)
// before decoding anything, so that a hostile length prefix that triggers a
// multi-GiB allocation kills only the worker ("fatal error: out of memory" is
// not recoverable). Before every case the worker stores the case index in a
// shared memory page; the parent reads it to attribute a dead worker to a case.

import (
	"sync"
	"bufio"
	"encoding/binary"
	"encoding/json"
	"fmt"
	"io"
	"os"
	"runtime"
	"runtime/debug"
	"runtime/metrics"
	"strings"
	"sync/atomic"
	"syscall"
	"unsafe"

	"verifmc/codec"
)

const (
	workerEnv     = "VERIF_C10_WORKER"
	addressSpace  = 4 << 30
	allocConst    = 8 << 20 // twice the largest protocol-constant buffer a decoder may reserve up front (one 4 MiB sector)
	allocPerByte  = 64      // in-memory form vs wire form of the densest honest objects stays well below this
	gcThreshold   = 32 << 20  // collect immediately after a decode that allocated this much
	recycleThresh = 256 << 20 // start a fresh worker after a decode that allocated this much (fresh pages need no zeroing)
	// workerMaxStack bounds the goroutine stack of the worker so that unbounded
	// recursion on hostile input is observed (fatal "stack exceeds limit") at a
	// moderate nesting depth instead of after a gigabyte of stack.
	workerMaxStack = 64 << 20
)

// AllocBound is the allocation allowance for an input of n bytes.
func AllocBound(n int) uint64 { return allocConst + allocPerByte*uint64(n) }

const (
	kindBinary = 0
	kindText   = 1
)

var byteSubs = 7 // {0x00,0x01,0x7F,0x80,0xFF,b^1,b+1}
var windowVals = []uint64{0, 1, 1 << 31, 1 << 32, 1 << 40, 1 << 62, 1 << 63, ^uint64(0)}
var textAlphabet = []byte{'0', '9', 'a', 'f', 'g', 'F', ':', '-', '.', '"', ' ', 0}

// NumCases is the number of hostile variations of a base of length n
// (including the unmodified base itself as the last case).
func NumCases(kind int, base []byte) uint64 {
	n := len(base)
	if kind == kindText {
		return uint64(n*len(textAlphabet)+n+n+5+1) + uint64(len(digitRuns(base))*len(numberVals))
	}
	w := 0
	if n >= 8 {
		w = n - 7
	}
	return uint64(n + byteSubs*n + len(windowVals)*w + len(pads)*w + 1)
}

// pads: the "padded count" families replace everything after an 8-byte window by `bytes` bytes of 0xFF and write
// `count` into the window: {2^17, 2^17 bytes} is a length prefix that claims exactly as many elements as bytes follow
// (the largest count a "count <= bytes left" check lets through); {64, 4 KiB} and {65, 4 KiB} are small counts that ARE
// backed by enough bytes for 32-byte elements - a list (a Merkle proof) of exactly / just beyond 64 entries followed by
// garbage that fails later.
var pads = []struct {
	count uint64
	bytes int
}{{1 << 17, 1 << 17}, {64, 4096}, {65, 4096}}

var numberVals = []string{"1e100000", "1e999999", "-1", "63", "64", "65", "255", "256", "65536", "4294967296", "9223372036854775808", "18446744073709551615", "18446744073709551616", "99999999999999999999999999999999999999999", "1e9"}

var runCache struct {
	p    *byte
	n    int
	runs [][2]int
}

// digitRuns returns the [start, end) ranges of the maximal digit runs of a text (cached for the last base; the worker
// serves many cases of one base in a row and is single-threaded per process... guarded by a mutex for the parent).
var runMu sync.Mutex

func digitRuns(base []byte) [][2]int {
	if len(base) == 0 {
		return nil
	}
	runMu.Lock()
	defer runMu.Unlock()
	if runCache.p == &base[0] && runCache.n == len(base) {
		return runCache.runs
	}
	var runs [][2]int
	for i := 0; i < len(base); {
		if base[i] < '0' || base[i] > '9' {
			i++
			continue
		}
		j := i
		for j < len(base) && base[j] >= '0' && base[j] <= '9' {
			j++
		}
		// hex strings are not numbers: only runs not adjacent to a hex letter count
		if !(i > 0 && isHexLetter(base[i-1])) && !(j < len(base) && isHexLetter(base[j])) && j-i <= 20 {
			runs = append(runs, [2]int{i, j})
		}
		i = j
	}
	runCache.p, runCache.n, runCache.runs = &base[0], len(base), runs
	return runs
}

func isHexLetter(b byte) bool { return b >= 'a' && b <= 'f' || b >= 'A' && b <= 'F' }

// padLen: the "padded count" family replaces everything after an 8-byte window by padLen bytes of 0xFF and writes
// padLen into the window - a length prefix that claims exactly as many elements as bytes follow, the largest count
// that a "count <= bytes left" check lets through.
const padLen = 1 << 17

// Variation builds case idx of a base into scratch and describes it.
func Variation(kind int, base []byte, idx uint64, scratch []byte) (in []byte, family, desc string) {
	n := uint64(len(base))
	if idx == NumCases(kind, base)-1 {
		return append(scratch[:0], base...), "base", "unmodified base"
	}
	if kind == kindText {
		a := uint64(len(textAlphabet))
		switch {
		case idx < n*a:
			pos, k := idx/a, idx%a
			in = append(scratch[:0], base...)
			in[pos] = textAlphabet[k]
			return in, "text-substitute", fmt.Sprintf("character %d := %q", pos, textAlphabet[k])
		case idx < n*a+n:
			pos := idx - n*a
			in = append(scratch[:0], base[:pos]...)
			in = append(in, base[pos+1:]...)
			return in, "text-delete", fmt.Sprintf("character %d deleted", pos)
		case idx < n*a+2*n:
			pos := idx - n*a - n
			in = append(scratch[:0], base[:pos+1]...)
			in = append(in, base[pos:]...)
			return in, "text-duplicate", fmt.Sprintf("character %d duplicated", pos)
		}
		if j := idx - n*a - 2*n; j >= 5 {
			// number tokens: every maximal run of digits (numbers, and quoted integer keys of JSON objects) replaced by
			// boundary numbers - negative, just inside / at / beyond small array sizes, beyond 32 and 64 bits, exponent form
			runs := digitRuns(base)
			r, v := runs[(j-5)/uint64(len(numberVals))], numberVals[(j-5)%uint64(len(numberVals))]
			in = append(scratch[:0], base[:r[0]]...)
			in = append(in, v...)
			in = append(in, base[r[1]:]...)
			return in, "text-number", fmt.Sprintf("number at characters %d..%d := %s", r[0], r[1]-1, v)
		}
		switch idx - n*a - 2*n {
		case 0:
			return append(scratch[:0], base[:max(0, len(base)-1)]...), "text-length", "length-1"
		case 1:
			return append(scratch[:0], base[:max(0, len(base)-2)]...), "text-length", "length-2"
		case 2:
			return append(append(scratch[:0], base...), '0'), "text-length", "length+1 ('0' appended)"
		case 3:
			return append(append(scratch[:0], base...), '0', '0'), "text-length", "length+2 (\"00\" appended)"
		default:
			return append(append(scratch[:0], base...), base...), "text-length", "length*2 (text repeated)"
		}
	}
	switch {
	case idx < n:
		return append(scratch[:0], base[:idx]...), "prefix", fmt.Sprintf("truncated to %d of %d bytes", idx, n)
	case idx < n+uint64(byteSubs)*n:
		j := idx - n
		pos, k := j/uint64(byteSubs), j%uint64(byteSubs)
		b := base[pos]
		v := []byte{0x00, 0x01, 0x7F, 0x80, 0xFF, b ^ 1, b + 1}[k]
		in = append(scratch[:0], base...)
		in[pos] = v
		return in, "byte-sub", fmt.Sprintf("byte %d: %#02x -> %#02x", pos, b, v)
	case n >= 8 && idx >= n+uint64(byteSubs)*n+uint64(len(windowVals))*(n-7):
		j := idx - n - uint64(byteSubs)*n - uint64(len(windowVals))*(n-7)
		pd, off := pads[j/(n-7)], j%(n-7)
		in = append(scratch[:0], base[:off]...)
		in = binary.LittleEndian.AppendUint64(in, pd.count)
		for i := 0; i < pd.bytes; i++ {
			in = append(in, 0xFF)
		}
		fam := "padded-count"
		if pd.count < 1<<17 {
			fam = fmt.Sprintf("padded-count-%d", pd.count)
		}
		return in, fam, fmt.Sprintf("bytes %d..%d := little-endian %d, followed by %d bytes of 0xFF instead of the rest", off, off+7, pd.count, pd.bytes)
	default:
		j := idx - n - uint64(byteSubs)*n
		off, k := j/uint64(len(windowVals)), j%uint64(len(windowVals))
		in = append(scratch[:0], base...)
		binary.LittleEndian.PutUint64(in[off:], windowVals[k])
		return in, "u64-window", fmt.Sprintf("bytes %d..%d := little-endian %#x", off, off+7, windowVals[k])
	}
}

// A job asks the worker to run cases [From, To) of one base.
type job struct {
	Kind  int
	Entry string
	Base  []byte
	From  uint64
	To    uint64
}

// A Finding is one oracle failure observed by the worker.
type Finding struct {
	Case   uint64 `json:"case"`
	Class  string `json:"class"` // panic | alloc-unbounded
	Frame  string `json:"frame,omitempty"`
	Detail string `json:"detail"`
	Alloc  uint64 `json:"alloc_bytes,omitempty"`
}

type result struct {
	Next     uint64 // first case not executed
	Recycle  bool   // worker exits after this result (large allocation)
	Accepted int64
	Rejected int64
	Panics   int64
	Allocs   int64
	MaxAlloc uint64
	// MaxOver: the largest allocation in excess of 64 bytes per input byte (0 if none exceeded it): calibrates the
	// allowance against what the tree under test actually needs
	MaxOver  uint64
	Findings []Finding
	Err      string
}

func writeJob(w io.Writer, j job) error {
	var hdr []byte
	hdr = append(hdr, byte(j.Kind))
	hdr = binary.LittleEndian.AppendUint16(hdr, uint16(len(j.Entry)))
	hdr = append(hdr, j.Entry...)
	hdr = binary.LittleEndian.AppendUint32(hdr, uint32(len(j.Base)))
	hdr = append(hdr, j.Base...)
	hdr = binary.LittleEndian.AppendUint64(hdr, j.From)
	hdr = binary.LittleEndian.AppendUint64(hdr, j.To)
	_, err := w.Write(hdr)
	return err
}

func readJob(r io.Reader) (j job, err error) {
	var b1 [1]byte
	if _, err = io.ReadFull(r, b1[:]); err != nil {
		return
	}
	j.Kind = int(b1[0])
	var b2 [2]byte
	if _, err = io.ReadFull(r, b2[:]); err != nil {
		return
	}
	name := make([]byte, binary.LittleEndian.Uint16(b2[:]))
	if _, err = io.ReadFull(r, name); err != nil {
		return
	}
	j.Entry = string(name)
	var b4 [4]byte
	if _, err = io.ReadFull(r, b4[:]); err != nil {
		return
	}
	j.Base = make([]byte, binary.LittleEndian.Uint32(b4[:]))
	if _, err = io.ReadFull(r, j.Base); err != nil {
		return
	}
	var b16 [16]byte
	if _, err = io.ReadFull(r, b16[:]); err != nil {
		return
	}
	j.From = binary.LittleEndian.Uint64(b16[:8])
	j.To = binary.LittleEndian.Uint64(b16[8:])
	return
}

func writeResult(w io.Writer, res result) error {
	b, _ := json.Marshal(res)
	var l [4]byte
	binary.LittleEndian.PutUint32(l[:], uint32(len(b)))
	if _, err := w.Write(l[:]); err != nil {
		return err
	}
	_, err := w.Write(b)
	return err
}

func readResult(r io.Reader) (res result, err error) {
	var l [4]byte
	if _, err = io.ReadFull(r, l[:]); err != nil {
		return
	}
	b := make([]byte, binary.LittleEndian.Uint32(l[:]))
	if _, err = io.ReadFull(r, b); err != nil {
		return
	}
	err = json.Unmarshal(b, &res)
	return
}

var allocSample = []metrics.Sample{{Name: "/gc/heap/allocs:bytes"}}

// heapAllocs returns the cumulative bytes allocated on the heap. Large objects
// (> 32 KiB) are accounted immediately; small size classes are accounted when
// their span is refilled, so the figure may lag by a few spans (well under a
// MiB) -- negligible against the 8 MiB constant of the allowance. The worker decodes on a
// single goroutine, so the delta around a decode is that decode's allocation.
func heapAllocs() uint64 {
	metrics.Read(allocSample)
	return allocSample[0].Value.Uint64()
}

// coreFrame returns the innermost function of go.sia.tech/core on the
// panicking stack.
func coreFrame() string {
	pc := make([]uintptr, 64)
	n := runtime.Callers(3, pc)
	frames := runtime.CallersFrames(pc[:n])
	for {
		fr, more := frames.Next()
		if strings.HasPrefix(fr.Function, "go.sia.tech/core/") {
			return trimFrame(fr.Function)
		}
		if !more {
			return ""
		}
	}
}

func trimFrame(fn string) string {
	fn = strings.TrimPrefix(fn, "go.sia.tech/core/")
	if i := strings.Index(fn, "["); i >= 0 { // drop generic instantiation
		fn = fn[:i]
	}
	for strings.HasSuffix(fn, ".func1") || strings.HasSuffix(fn, ".func2") {
		fn = fn[:len(fn)-6]
	}
	return fn
}

func runOne(decode func([]byte) error, in []byte) (err error, pv any, frame string) {
	defer func() {
		if r := recover(); r != nil {
			pv = r
			frame = coreFrame()
		}
	}()
	err = decode(in)
	return
}

func decoderFor(kind int, name string) func([]byte) error {
	if kind == kindText {
		t := codec.LookupText(name)
		if t == nil {
			return nil
		}
		return t.Parse
	}
	e := codec.Lookup(name)
	if e == nil {
		return nil
	}
	return func(b []byte) error { _, err := e.Decode(b); return err }
}

func mapProgress(f *os.File) (*uint64, error) {
	mem, err := syscall.Mmap(int(f.Fd()), 0, 4096, syscall.PROT_READ|syscall.PROT_WRITE, syscall.MAP_SHARED)
	if err != nil {
		return nil, err
	}
	return (*uint64)(unsafe.Pointer(&mem[0])), nil
}

func workerMain() {
	if err := syscall.Setrlimit(syscall.RLIMIT_AS, &syscall.Rlimit{Cur: addressSpace, Max: addressSpace}); err != nil {
		fmt.Fprintln(os.Stderr, "c10 worker: setrlimit:", err)
		os.Exit(3)
	}
	debug.SetGCPercent(100)
	debug.SetMaxStack(workerMaxStack)
	progress, err := mapProgress(os.NewFile(3, "progress"))
	if err != nil {
		fmt.Fprintln(os.Stderr, "c10 worker: mmap:", err)
		os.Exit(3)
	}
	in := bufio.NewReaderSize(os.Stdin, 1<<16)
	out := bufio.NewWriter(os.Stdout)
	scratch := make([]byte, 0, 1<<21)
	for {
		j, err := readJob(in)
		if err != nil {
			return // parent closed the pipe
		}
		res := serve(j, progress, &scratch)
		if err := writeResult(out, res); err != nil {
			return
		}
		out.Flush()
		if res.Recycle {
			return
		}
	}
}

func serve(j job, progress *uint64, scratch *[]byte) (res result) {
	decode := decoderFor(j.Kind, j.Entry)
	if decode == nil {
		res.Err = "unknown entry " + j.Entry
		res.Next = j.To
		return
	}
	seen := map[string]int{}
	for idx := j.From; idx < j.To; idx++ {
		atomic.StoreUint64(progress, idx)
		input, _, desc := Variation(j.Kind, j.Base, idx, *scratch)
		*scratch = input[:0]
		a0 := heapAllocs()
		err, pv, frame := runOne(decode, input)
		alloc := heapAllocs() - a0
		res.Next = idx + 1
		if alloc > res.MaxAlloc {
			res.MaxAlloc = alloc
		}
		if over := int64(alloc) - 64*int64(len(input)); over > int64(res.MaxOver) {
			res.MaxOver = uint64(over)
		}
		switch {
		case pv != nil:
			res.Panics++
			key := "panic|" + frame
			if seen[key] < 3 {
				res.Findings = append(res.Findings, Finding{Case: idx, Class: "panic", Frame: frame, Detail: fmt.Sprintf("%s: panic: %v", desc, pv)})
			}
			seen[key]++
		case err != nil:
			res.Rejected++
		default:
			res.Accepted++
		}
		if alloc > AllocBound(len(input)) {
			res.Allocs++
			if seen["alloc"] < 3 {
				res.Findings = append(res.Findings, Finding{Case: idx, Class: "alloc-unbounded", Alloc: alloc,
					Detail: fmt.Sprintf("%s: decoding %d input bytes allocated %d bytes (allowance %d)", desc, len(input), alloc, AllocBound(len(input)))})
			}
			seen["alloc"]++
		}
		if alloc > gcThreshold {
			runtime.GC()
			debug.FreeOSMemory()
		}
		if alloc > recycleThresh {
			res.Recycle = true
			return
		}
	}
	return
}
