package c10

import (
	"bufio"
	"bytes"
	"encoding/hex"
	"encoding/json"
	"fmt"
	"hash/maphash"
	"io"
	"os"
	"os/exec"
	"sort"
	"strings"
	"sync"
	"sync/atomic"
	"time"

	"go.sia.tech/core/types"
	"verifmc/codec"
	"verifmc/vf"
)

// A DecCase is the replayable descriptor of one decoder case.
type DecCase struct {
	Half    string `json:"half"` // "decoders"
	Kind    int    `json:"kind"` // 0 binary, 1 text
	Entry   string `json:"entry"`
	BaseHex string `json:"base_hex"`
	Case    uint64 `json:"case_index"`
	What    string `json:"variation"`
	Input   string `json:"input_hex,omitempty"`
	Text    string `json:"input_text,omitempty"`
}

type unit struct {
	kind  int
	entry string
	pkg   string
	base  []byte
	label string
	only  bool // run the input as it is (structured attack), without the byte-level variations
}

func (u unit) firstCase() uint64 {
	if u.only {
		return NumCases(u.kind, u.base) - 1
	}
	return 0
}

// a workerProc is one live worker subprocess.
type workerProc struct {
	cmd      *exec.Cmd
	stdin    io.WriteCloser
	stdout   *bufio.Reader
	stderr   *bytes.Buffer
	progress *uint64
	pfile    *os.File
	done     chan struct{}
}

func startWorker() (*workerProc, error) {
	exe, err := os.Executable()
	if err != nil {
		return nil, err
	}
	pf, err := os.CreateTemp("", "verif-c10-progress-*")
	if err != nil {
		return nil, err
	}
	os.Remove(pf.Name()) // anonymous: nothing is left behind whatever happens
	if err := pf.Truncate(4096); err != nil {
		return nil, err
	}
	prog, err := mapProgress(pf)
	if err != nil {
		return nil, err
	}
	cmd := exec.Command(exe, "C10")
	cmd.Env = append(os.Environ(), workerEnv+"=1", "GOMAXPROCS=2", "GOTRACEBACK=single")
	cmd.ExtraFiles = []*os.File{pf}
	w := &workerProc{cmd: cmd, stderr: &bytes.Buffer{}, progress: prog, pfile: pf, done: make(chan struct{})}
	cmd.Stderr = &capWriter{buf: w.stderr, max: 1 << 16}
	if w.stdin, err = cmd.StdinPipe(); err != nil {
		return nil, err
	}
	so, err := cmd.StdoutPipe()
	if err != nil {
		return nil, err
	}
	w.stdout = bufio.NewReader(so)
	if err := cmd.Start(); err != nil {
		return nil, err
	}
	return w, nil
}

type capWriter struct {
	buf *bytes.Buffer
	max int
}

func (c *capWriter) Write(p []byte) (int, error) {
	if room := c.max - c.buf.Len(); room > 0 {
		if len(p) > room {
			c.buf.Write(p[:room])
		} else {
			c.buf.Write(p)
		}
	}
	return len(p), nil
}

func (w *workerProc) stop() {
	w.stdin.Close()
	w.cmd.Process.Kill()
	w.cmd.Wait()
	w.pfile.Close()
}

// outcome of one attempt to run a job range on a worker
type attempt struct {
	res    result
	died   bool
	hung   bool
	at     uint64 // case in flight when the worker died
	stderr string
}

func (w *workerProc) run(j job) attempt {
	atomic.StoreUint64(w.progress, j.From)
	if err := writeJob(w.stdin, j); err != nil {
		w.cmd.Wait()
		return attempt{died: true, at: atomic.LoadUint64(w.progress), stderr: w.stderr.String()}
	}
	type rr struct {
		res result
		err error
	}
	ch := make(chan rr, 1)
	go func() {
		res, err := readResult(w.stdout)
		ch <- rr{res, err}
	}()
	last := atomic.LoadUint64(w.progress)
	stalls := 0
	tick := time.NewTicker(15 * time.Second)
	defer tick.Stop()
	for {
		select {
		case r := <-ch:
			if r.err != nil {
				w.cmd.Wait()
				return attempt{died: true, at: atomic.LoadUint64(w.progress), stderr: w.stderr.String()}
			}
			return attempt{res: r.res}
		case <-tick.C:
			// not an oracle on speed: only a decode that makes no progress at
			// all for two minutes is declared non-terminating
			if cur := atomic.LoadUint64(w.progress); cur == last {
				stalls++
				if stalls >= 8 {
					w.cmd.Process.Kill()
					w.cmd.Wait()
					return attempt{died: true, hung: true, at: cur, stderr: "no progress for 120 s (non-terminating decode)"}
				}
			} else {
				last, stalls = cur, 0
			}
		}
	}
}

type decStats struct {
	cases, accepted, rejected, panics, allocs, killed, recycled, restarts atomic.Int64
	maxAlloc                                                              atomic.Uint64
	maxOver                                                               atomic.Uint64
	maxOverAt                                                             atomic.Value
}

func coreFrameFromDump(dump string) string {
	for _, line := range strings.Split(dump, "\n") {
		line = strings.TrimSpace(line)
		if strings.HasPrefix(line, "go.sia.tech/core/") {
			if i := strings.LastIndex(line, "("); i > 0 {
				line = line[:i]
			}
			return trimFrame(line)
		}
	}
	return ""
}

func signature(entry, class, trigger string) string {
	return fmt.Sprintf("decode|%s|%s|%s", entry, class, trigger)
}

func triggerOf(kind int, class, frame string) string {
	if frame != "" {
		return "in " + frame
	}
	if kind == kindText {
		return "text"
	}
	return "wire-length"
}

func describe(u unit, idx uint64) DecCase {
	in, _, what := Variation(u.kind, u.base, idx, nil)
	cs := DecCase{Half: "decoders", Kind: u.kind, Entry: u.entry, BaseHex: hex.EncodeToString(u.base), Case: idx, What: what}
	if u.kind == kindText {
		cs.Text = string(in)
	} else if len(in) <= 512 {
		cs.Input = hex.EncodeToString(in)
	}
	return cs
}

// runUnit runs every case of one base on a worker slot, restarting the worker
// when it dies (a violation attributed to the case in flight) or recycles.
func runUnit(c *vf.Ctx, slot **workerProc, u unit, from, to uint64, st *decStats) {
	for from < to {
		if *slot == nil {
			w, err := startWorker()
			if err != nil {
				c.HarnessError("cannot start decoder worker: %v", err)
				return
			}
			*slot = w
			st.restarts.Add(1)
		}
		a := (*slot).run(job{Kind: u.kind, Entry: u.entry, Base: u.base, From: from, To: to})
		if a.died {
			(*slot).stop()
			*slot = nil
			st.killed.Add(1)
			st.cases.Add(int64(a.at - from + 1))
			cs := describe(u, a.at)
			frame := coreFrameFromDump(a.stderr)
			tail := a.stderr
			if len(tail) > 1500 {
				tail = tail[:1500] + "..."
			}
			c.Violate(signature(u.entry, "worker-killed", triggerOf(u.kind, "worker-killed", frame)),
				fmt.Sprintf("[%s, base %q] %s: the decoding process died (address-space limit %d GiB); stderr: %s", u.entry, u.label, cs.What, addressSpace>>30, tail), cs)
			from = a.at + 1
			continue
		}
		res := a.res
		if res.Err != "" {
			c.HarnessError("decoder worker: %s", res.Err)
			return
		}
		st.cases.Add(int64(res.Next - from))
		st.accepted.Add(res.Accepted)
		st.rejected.Add(res.Rejected)
		st.panics.Add(res.Panics)
		st.allocs.Add(res.Allocs)
		for {
			old := st.maxAlloc.Load()
			if res.MaxAlloc <= old || st.maxAlloc.CompareAndSwap(old, res.MaxAlloc) {
				break
			}
		}
		for {
			old := st.maxOver.Load()
			if res.MaxOver <= old || st.maxOver.CompareAndSwap(old, res.MaxOver) {
				if res.MaxOver > old {
					st.maxOverAt.Store(u.entry + " / " + u.label)
				}
				break
			}
		}
		for _, f := range res.Findings {
			cs := describe(u, f.Case)
			c.Violate(signature(u.entry, f.Class, triggerOf(u.kind, f.Class, f.Frame)), fmt.Sprintf("[%s, base %q] %s", u.entry, u.label, f.Detail), cs)
		}
		if res.Recycle {
			(*slot).stop()
			*slot = nil
			st.recycled.Add(1)
		}
		from = res.Next
	}
}

// corpus builds the base encodings: for every inventory entry the C11 domain
// (generic bases, sum-type variants, chain values, strided single deviations),
// capped per entry; for every text entry point its valid sample texts.
func corpus(c *vf.Ctx) (units []unit, perPkg map[string]map[string]int) {
	maxEnc := vf.Pick(c, 10, 64)          // base encodings per entry
	maxLen := vf.Pick(c, 2048, 8192)      // longest base encoding used (bytes)
	maxBytes := vf.Pick(c, 6<<10, 96<<10) // total bytes of base encodings per entry
	c.Set("caps", map[string]any{"base_encodings_per_entry": maxEnc, "max_base_encoding_bytes": maxLen, "max_total_base_bytes_per_entry": maxBytes,
		"selection": "zero, one, typical profiles; three chain values (shortest first, multiproof forms: those referencing accumulator leaves first); big, top, max profiles; sum-type variants; remaining chain values; then single deviations of the typical base at an even stride; duplicates and encodings above the length cap are skipped"})
	perPkg = map[string]map[string]int{}
	bump := func(pkg, key string, n int) {
		if perPkg[pkg] == nil {
			perPkg[pkg] = map[string]int{}
		}
		perPkg[pkg][key] += n
	}
	capped := 0
	for _, e := range codec.Entries() {
		bump(e.Pkg, "entries", 1)
		seen := map[string]bool{}
		total := 0
		n := 0
		skipped := false
		add := func(label string, enc []byte) bool {
			if n >= maxEnc {
				return false
			}
			if n > 0 && (len(enc) > maxLen || total+len(enc) > maxBytes) || seen[string(enc)] {
				skipped = true
				return true // skip this one, smaller ones may still fit
			}
			seen[string(enc)] = true
			total += len(enc)
			n++
			units = append(units, unit{kind: kindBinary, entry: e.Name, pkg: e.Pkg, base: append([]byte(nil), enc...), label: label})
			return true
		}
		bases := e.Bases()
		var generic, real []codec.Base
		for _, b := range bases {
			if b.Real {
				real = append(real, b)
			} else {
				generic = append(generic, b)
			}
		}
		// chain values: shortest first; for multiproof forms those that really
		// reference accumulator leaves come first
		leafy := func(b codec.Base) bool { return e.Multiproof && codec.AssignedLeaves(b.V) > 0 }
		sort.SliceStable(real, func(i, j int) bool {
			if li, lj := leafy(real[i]), leafy(real[j]); li != lj {
				return li
			}
			bi, _ := e.SafeEncode(real[i].V)
			bj, _ := e.SafeEncode(real[j].V)
			return len(bi) < len(bj)
		})
		// order: zero, one, typical; three chain values; the other generic
		// profiles; sum-type variants; remaining chain values
		var order []codec.Base
		ng := min(3, len(generic))
		order = append(order, generic[:ng]...)
		nr := min(3, len(real))
		order = append(order, real[:nr]...)
		order = append(order, generic[ng:]...)
		order = append(order, real[nr:]...)
		full := false
		for _, b := range order {
			eb, pv := e.SafeEncode(b.V)
			if pv != nil {
				// the ENCODER of the tree under test panicked on a domain value: C11's business; C10 goes on with the
				// other bases (the byte-window substitutions still put the same extreme values on the wire)
				c.Count("bases_skipped_encoder_panicked", 1)
				continue
			}
			if !add(b.Label, eb) {
				full = true
				break
			}
		}
		if !full {
			// single deviations of the typical base at an even stride
			for _, b := range generic {
				if b.Label != "typical" {
					continue
				}
				ms := e.Mutations(b)
				room := maxEnc - n
				if room <= 0 || len(ms) == 0 {
					break
				}
				step := max(1, len(ms)/room)
				for i := 0; i < len(ms); i += step {
					m := ms[i]
					m.Apply()
					var b2 []byte
					if p, _ := vf.Try(func() { b2 = e.Encode(b.V) }); p == nil {
						if !add("typical"+m.Path, b2) {
							full = true
						}
					}
					m.Undo()
					if full {
						break
					}
				}
			}
		}
		if full || skipped {
			capped++
		}
		bump(e.Pkg, "base_encodings", n)
		bump(e.Pkg, "base_bytes", total)
	}
	c.Set("entries_at_cap", capped)
	// structured attack: spend policies nested far beyond the decoder's depth
	// limit (types/encoding.go maxPolicyDepth); the worker's stack is limited
	// so that unbounded recursion kills it at a moderate depth
	var depths []int
	for _, d := range []int{31, 32, 33, 34, 255, 4096, 300_000} {
		depths = append(depths, d)
		in := []byte{1}
		for i := 0; i < d; i++ {
			in = append(in, 5, 1, 1) // threshold 1-of-1
		}
		in = append(in, 1, 0, 0, 0, 0, 0, 0, 0, 0) // above(0)
		units = append(units, unit{kind: kindBinary, entry: "types.SpendPolicy", pkg: "types", base: in, label: fmt.Sprintf("policy nested %d deep", d), only: true})
		sat := append(append([]byte(nil), in...), make([]byte, 16)...)
		units = append(units, unit{kind: kindBinary, entry: "types.SatisfiedPolicy", pkg: "types", base: sat, label: fmt.Sprintf("satisfied policy nested %d deep", d), only: true})
		bump("types", "structured_attack_inputs", 2)
	}
	// structured attack: multiproof-form transaction lists whose elements carry an EMBEDDED Merkle proof (the library's
	// encoder always strips them; a hand-made peer need not) of 1, 63, 64, 65 hashes, with a valid leaf index, leaf count
	// and multiproof. These are bases: all their prefixes (stream ending before the leaf count / inside the multiproof),
	// byte and window variations (leaf count below the leaf index, ...) are enumerated like those of any other base.
	var embedded []int
	for _, L := range []int{1, 63, 64, 65} {
		embedded = append(embedded, L)
		txn := types.V2Transaction{SiacoinInputs: []types.V2SiacoinInput{{
			Parent:          types.SiacoinElement{StateElement: types.StateElement{LeafIndex: 5, MerkleProof: make([]types.Hash256, L)}, SiacoinOutput: types.SiacoinOutput{Value: types.Siacoins(1)}},
			SatisfiedPolicy: types.SatisfiedPolicy{Policy: types.AnyoneCanSpend()}}}, MinerFee: types.Siacoins(1)}
		wire := codec.Enc(func(e *types.Encoder) {
			types.EncodeSlice(e, []types.V2Transaction{txn})
			e.WriteUint64(8) // leaf count: leaf 5 lies in the tree of height 2 -> proof of 2 hashes, multiproof of 2 hashes
			for i := 0; i < 3; i++ {
				types.Hash256{byte(i + 1)}.EncodeTo(e)
			}
		})
		units = append(units, unit{kind: kindBinary, entry: "types.V2TransactionsMultiproof", pkg: "types", base: wire, label: fmt.Sprintf("multiproof form with an embedded %d-hash element proof", L)})
		bd := append(make([]byte, 40), wire...) // height 0, zero commitment
		units = append(units, unit{kind: kindBinary, entry: "types.V2BlockData", pkg: "types", base: bd, label: fmt.Sprintf("block data with an embedded %d-hash element proof", L)})
		bump("types", "structured_attack_inputs", 2)
	}
	// structured attack: the same nesting in the TEXT form of a policy (ParseSpendPolicy / the JSON string form)
	for _, d := range []int{33, 34, 255, 4096, 300_000} {
		var sb strings.Builder
		for i := 0; i < d; i++ {
			sb.WriteString("thresh(1,[")
		}
		sb.WriteString("above(0)")
		for i := 0; i < d; i++ {
			sb.WriteString("])")
		}
		txt := sb.String()
		units = append(units, unit{kind: kindText, entry: "types.ParseSpendPolicy", pkg: "text", base: []byte(txt), label: fmt.Sprintf("policy text nested %d deep", d), only: true})
		units = append(units, unit{kind: kindText, entry: "types.SpendPolicy (json.Unmarshal)", pkg: "text", base: []byte(`"` + txt + `"`), label: fmt.Sprintf("policy JSON string nested %d deep", d), only: true})
		bump("text", "structured_attack_inputs", 2)
	}
	c.Set("structured_attacks", map[string]any{"policy_nesting_depths": depths, "worker_max_stack_bytes": workerMaxStack, "multiproof_embedded_proof_lengths": embedded})
	maxTexts := vf.Pick(c, 4, 16)
	maxTextLen := vf.Pick(c, 1500, 8000)
	for _, t := range codec.TextEntries() {
		bump("text", "entries", 1)
		k := 0
		for _, s := range t.Texts() {
			if k >= maxTexts || len(s) > maxTextLen && k > 0 {
				continue
			}
			k++
			units = append(units, unit{kind: kindText, entry: t.Name, pkg: "text", base: []byte(s), label: fmt.Sprintf("valid text #%d", k)})
			bump("text", "base_texts", 1)
			bump("text", "base_bytes", len(s))
		}
		if k == 0 {
			c.HarnessError("text entry %s has no valid sample text", t.Name)
		}
	}
	return
}

func runDecoders(c *vf.Ctx) {
	codec.Seed = c.Seed
	c.Set("rule", "decoder half: for every inventory codec (same inventory as C11) and every text entry point, for every base encoding of the (capped) C11 domain: "+
		"every proper prefix; every byte position x {0x00,0x01,0x7F,0x80,0xFF,b^1,b+1}; every 8-byte window x {0,1,2^31,2^32,2^40,2^62,2^63,2^64-1} little-endian; every 8-byte window set to 131072 and followed by 131072 bytes of 0xFF instead of the rest (a count that equals the bytes left), and set to 64 / 65 followed by 4096 bytes of 0xFF (a list of exactly / just over 64 32-byte entries, then garbage); "+
		"texts: every position x 12-symbol alphabet, every deletion, every duplication, length -1,-2,+1,+2,x2, every number token (digit run, incl. quoted integer keys of JSON objects) x 15 boundary numbers (1e100000, 1e999999, -1, 63..65, 255, 256, 2^16, 2^32, 2^63, 2^64-1, 2^64, 41 digits, 1e9). A case is non-trivial when it is a distinct (entry, input) pair")
	c.Assume("allocation is measured with runtime/metrics /gc/heap/allocs:bytes around a single-goroutine decode in the worker (large objects are accounted immediately; small-class lag is far below the 8 MiB constant of the allowance)")
	c.Assume("workers run with RLIMIT_AS = 4 GiB set by the worker itself before decoding; a worker that dies is a violation attributed to the case index it stored in shared memory before decoding")
	c.Assume("termination: a decode that makes no progress for 120 s is declared non-terminating (never observed); no other use of wall-clock time")
	if _, err := codec.ChainVals(); err != nil {
		c.HarnessError("chain-derived corpus: %v", err)
	}
	units, perPkg := corpus(c)
	var totalCases uint64
	for _, u := range units {
		totalCases += NumCases(u.kind, u.base) - u.firstCase()
	}
	c.Set("corpus_per_package", perPkg)
	c.Set("base_inputs", len(units))
	c.Set("planned_cases", totalCases)
	c.Set("allocation_bound", "8 MiB + 64 * len(input)")
	c.Set("worker_address_space_limit_bytes", addressSpace)

	sort.SliceStable(units, func(i, j int) bool {
		return NumCases(units[i].kind, units[i].base)-units[i].firstCase() > NumCases(units[j].kind, units[j].base)-units[j].firstCase()
	})
	st := &decStats{}
	nslots := vf.Workers()
	var next atomic.Int64
	var wg sync.WaitGroup
	for s := 0; s < nslots; s++ {
		wg.Add(1)
		go func() {
			defer wg.Done()
			var slot *workerProc
			defer func() {
				if slot != nil {
					slot.stop()
				}
			}()
			for {
				i := int(next.Add(1) - 1)
				if i >= len(units) || c.Expired() {
					return
				}
				u := units[i]
				n := NumCases(u.kind, u.base)
				runUnit(c, &slot, u, u.firstCase(), n, st)
				for _, fam := range families(u.kind) {
					c.Distinct(u.entry, hex.EncodeToString(u.base), fam)
				}
			}
		}()
	}
	wg.Wait()
	c.Count("evaluations", st.cases.Load())
	c.Count("decodes_accepted", st.accepted.Load())
	c.Count("decodes_rejected", st.rejected.Load())
	c.Count("decodes_panicked", st.panics.Load())
	c.Count("decodes_over_allocation_bound", st.allocs.Load())
	c.Count("workers_killed", st.killed.Load())
	c.Count("workers_recycled_after_large_allocation", st.recycled.Load())
	c.Count("worker_processes_started", st.restarts.Load())
	c.Set("max_allocation_of_one_decode_bytes", st.maxAlloc.Load())
	c.Set("max_allocation_in_excess_of_64_bytes_per_input_byte", st.maxOver.Load())
	if v := st.maxOverAt.Load(); v != nil {
		c.Set("max_excess_allocation_at", v)
	}
	c.Set("distinct_outcomes", map[string]int64{"accepted": st.accepted.Load(), "rejected": st.rejected.Load(), "panic": st.panics.Load(),
		"over_allocation_bound": st.allocs.Load(), "worker_killed": st.killed.Load()})
	if uint64(st.cases.Load()) < totalCases && !c.Expired() {
		c.HarnessError("decoder half executed %d of %d planned cases", st.cases.Load(), totalCases)
	}
	distinctInputs(c, units)
	for _, name := range []string{"types.V2Transaction", "rhp/v2.RPCReadResponse", "types.ChainIndex.UnmarshalText"} {
		for _, u := range units {
			if u.entry == name {
				c.Sample(describe(u, NumCases(u.kind, u.base)/2))
				break
			}
		}
	}
	c.RequireFeature("evaluations", "decodes_accepted", "decodes_rejected")
}

func families(kind int) []string {
	if kind == kindText {
		return []string{"text-substitute", "text-delete", "text-duplicate", "text-length", "text-number"}
	}
	return []string{"prefix", "byte-sub", "u64-window", "padded-count", "padded-count-64", "padded-count-65"}
}

// distinctInputs counts the distinct inputs per base exactly (64-bit hash of
// every generated input; variations that reproduce the same bytes, e.g. a
// substitution by the byte already there, are counted once).
func distinctInputs(c *vf.Ctx, units []unit) {
	seed := maphash.MakeSeed()
	vf.ParallelFor(len(units), func(i int) {
		u := units[i]
		n := NumCases(u.kind, u.base)
		seen := make(map[uint64]struct{}, n-u.firstCase())
		var scratch []byte
		for idx := u.firstCase(); idx < n; idx++ {
			in, _, _ := Variation(u.kind, u.base, idx, scratch)
			scratch = in[:0]
			seen[maphash.Bytes(seed, in)] = struct{}{}
		}
		c.Count("distinct_inputs", int64(len(seen)))
	})
}

func replayDecoder(c *vf.Ctx, raw json.RawMessage) {
	var cs DecCase
	if err := json.Unmarshal(raw, &cs); err != nil {
		c.HarnessError("bad case: %v", err)
		return
	}
	codec.Seed = c.Seed
	base, err := hex.DecodeString(cs.BaseHex)
	if err != nil {
		c.HarnessError("bad base: %v", err)
		return
	}
	u := unit{kind: cs.Kind, entry: cs.Entry, base: base, label: "replay"}
	st := &decStats{}
	var slot *workerProc
	runUnit(c, &slot, u, cs.Case, cs.Case+1, st)
	if slot != nil {
		slot.stop()
	}
	c.Count("evaluations", st.cases.Load())
}
