package c11

// WireSpec: an independent, table-driven statement of the byte layout of the
// consensus-critical wire objects. Each layout lists the fields in WIRE order
// with their wire type; the interpreter reads the Go value by field NAME, so a
// field that is reordered, re-typed, dropped or added symmetrically in the
// repository's encoder and decoder makes the real bytes differ from the
// table's bytes. Primitive conventions (types/encoding.go:14-343): integers
// are little-endian uint64; bools are one byte 0/1; byte strings and slices
// carry a uint64 length / count prefix; times are Unix seconds as uint64;
// fixed-size arrays are written raw.

import (
	"fmt"
	"math/bits"
	"reflect"
	"sort"
	"strings"
	"time"
	"unsafe"

	"go.sia.tech/core/types"
	"verifmc/spec"
)

type wkind int

const (
	wU64       wkind = iota // little-endian uint64 (also int64 / time.Duration reinterpreted)
	wU8                     // single byte
	wBool                   // single byte 0/1
	wRaw                    // fixed-size byte array written raw
	wBytes                  // uint64 length + bytes ([]byte or string)
	wTime                   // uint64(Unix seconds)
	wCurV1                  // v1 currency: uint64 length + big-endian bytes, leading zeros trimmed
	wCurV2                  // v2 currency: lo, hi little-endian
	wU64CurV1               // a uint64 written in the v1 currency format (siafund values)
	wZeroCurV1              // constant: a zero v1 currency (8 zero bytes); takes no field
	wStruct                 // nested layout
	wSlice                  // uint64 count + elements (Elem layout / Elem kind)
	wPtr                    // bool + nested layout if present
	wCustom                 // function
)

type wfield struct {
	Name   string // Go field name; dotted for promoted/nested access; "" = the value itself
	K      wkind
	Layout string // for wStruct / wSlice / wPtr: nested layout name
	Elem   wkind  // for wSlice of primitives
	Fn     func(x *wctx, v reflect.Value)
}

type wctx struct {
	w          spec.W
	multiproof bool // inside a multiproof form: assigned parents carry no individual proof
}

func f(name string, k wkind) wfield      { return wfield{Name: name, K: k} }
func st(name, layout string) wfield      { return wfield{Name: name, K: wStruct, Layout: layout} }
func sl(name, layout string) wfield      { return wfield{Name: name, K: wSlice, Layout: layout} }
func slp(name string, elem wkind) wfield { return wfield{Name: name, K: wSlice, Elem: elem} }
func ptr(name, layout string) wfield     { return wfield{Name: name, K: wPtr, Layout: layout} }
func custom(name string, fn func(*wctx, reflect.Value)) wfield {
	return wfield{Name: name, K: wCustom, Fn: fn}
}

var hash32 = []wfield{f("", wRaw)}

// layouts is the table. Order of the fields = order on the wire.
var layouts map[string][]wfield

func init() {
	layouts = map[string][]wfield{
		"Hash256":          hash32,
		"Signature":        {f("", wRaw)},
		"Specifier":        {f("", wRaw)},
		"UnlockKey":        {f("Algorithm", wRaw), f("Key", wBytes)},
		"UnlockConditions": {f("Timelock", wU64), sl("PublicKeys", "UnlockKey"), f("SignaturesRequired", wU64)},
		"V1Currency":       {f("", wCurV1)},
		"V2Currency":       {f("", wCurV2)},
		"ChainIndex":       {f("Height", wU64), f("ID", wRaw)},
		"V1SiacoinOutput":  {f("Value", wCurV1), f("Address", wRaw)},
		"V2SiacoinOutput":  {f("Value", wCurV2), f("Address", wRaw)},
		"V1SiafundOutput":  {f("Value", wU64CurV1), f("Address", wRaw), f("", wZeroCurV1)},
		"V2SiafundOutput":  {f("Value", wU64), f("Address", wRaw)},
		"SiacoinInput":     {f("ParentID", wRaw), st("UnlockConditions", "UnlockConditions")},
		"SiafundInput":     {f("ParentID", wRaw), st("UnlockConditions", "UnlockConditions"), f("ClaimAddress", wRaw)},
		"FileContract": {f("Filesize", wU64), f("FileMerkleRoot", wRaw), f("WindowStart", wU64), f("WindowEnd", wU64), f("Payout", wCurV1),
			sl("ValidProofOutputs", "V1SiacoinOutput"), sl("MissedProofOutputs", "V1SiacoinOutput"), f("UnlockHash", wRaw), f("RevisionNumber", wU64)},
		"FileContractRevision": {f("ParentID", wRaw), st("UnlockConditions", "UnlockConditions"),
			f("FileContract.RevisionNumber", wU64), f("FileContract.Filesize", wU64), f("FileContract.FileMerkleRoot", wRaw),
			f("FileContract.WindowStart", wU64), f("FileContract.WindowEnd", wU64),
			sl("FileContract.ValidProofOutputs", "V1SiacoinOutput"), sl("FileContract.MissedProofOutputs", "V1SiacoinOutput"), f("FileContract.UnlockHash", wRaw)},
		"StorageProof":            {f("ParentID", wRaw), f("Leaf", wRaw), sl("Proof", "Hash256")},
		"FoundationAddressUpdate": {f("NewPrimary", wRaw), f("NewFailsafe", wRaw)},
		"CoveredFields": {f("WholeTransaction", wBool), slp("SiacoinInputs", wU64), slp("SiacoinOutputs", wU64), slp("FileContracts", wU64),
			slp("FileContractRevisions", wU64), slp("StorageProofs", wU64), slp("SiafundInputs", wU64), slp("SiafundOutputs", wU64),
			slp("MinerFees", wU64), slp("ArbitraryData", wU64), slp("Signatures", wU64)},
		"TransactionSignature": {f("ParentID", wRaw), f("PublicKeyIndex", wU64), f("Timelock", wU64), st("CoveredFields", "CoveredFields"), f("Signature", wBytes)},
		"TransactionSansSigs": {sl("SiacoinInputs", "SiacoinInput"), sl("SiacoinOutputs", "V1SiacoinOutput"), sl("FileContracts", "FileContract"),
			sl("FileContractRevisions", "FileContractRevision"), sl("StorageProofs", "StorageProof"), sl("SiafundInputs", "SiafundInput"),
			sl("SiafundOutputs", "V1SiafundOutput"), slp("MinerFees", wCurV1), slp("ArbitraryData", wBytes)},
		"Transaction":           {st("", "TransactionSansSigs"), sl("Signatures", "TransactionSignature")},
		"SpendPolicy":           {custom("", wPolicy)},
		"SatisfiedPolicy":       {st("Policy", "SpendPolicy"), sl("Signatures", "Signature"), sl("Preimages", "Hash256")},
		"StateElement":          {f("LeafIndex", wU64), custom("", wMerkleProof)},
		"ChainIndexElement":     {st("StateElement", "StateElement"), f("ID", wRaw), st("ChainIndex", "ChainIndex")},
		"SiacoinElement":        {st("StateElement", "StateElement"), f("ID", wRaw), st("SiacoinOutput", "V2SiacoinOutput"), f("MaturityHeight", wU64)},
		"SiafundElement":        {st("StateElement", "StateElement"), f("ID", wRaw), st("SiafundOutput", "V2SiafundOutput"), f("ClaimStart", wCurV2)},
		"FileContractElement":   {st("StateElement", "StateElement"), f("ID", wRaw), st("FileContract", "FileContract")},
		"V2FileContractElement": {st("StateElement", "StateElement"), f("ID", wRaw), st("V2FileContract", "V2FileContract")},
		"V2SiacoinInput":        {st("Parent", "SiacoinElement"), st("SatisfiedPolicy", "SatisfiedPolicy")},
		"V2SiafundInput":        {st("Parent", "SiafundElement"), f("ClaimAddress", wRaw), st("SatisfiedPolicy", "SatisfiedPolicy")},
		"V2FileContract": {f("Capacity", wU64), f("Filesize", wU64), f("FileMerkleRoot", wRaw), f("ProofHeight", wU64), f("ExpirationHeight", wU64),
			st("RenterOutput", "V2SiacoinOutput"), st("HostOutput", "V2SiacoinOutput"), f("MissedHostValue", wCurV2), f("TotalCollateral", wCurV2),
			f("RenterPublicKey", wRaw), f("HostPublicKey", wRaw), f("RevisionNumber", wU64), f("RenterSignature", wRaw), f("HostSignature", wRaw)},
		"V2FileContractRevision": {st("Parent", "V2FileContractElement"), st("Revision", "V2FileContract")},
		"V2FileContractRenewal": {st("FinalRenterOutput", "V2SiacoinOutput"), st("FinalHostOutput", "V2SiacoinOutput"), f("RenterRollover", wCurV2), f("HostRollover", wCurV2),
			st("NewContract", "V2FileContract"), f("RenterSignature", wRaw), f("HostSignature", wRaw)},
		"V2StorageProof":           {st("ProofIndex", "ChainIndexElement"), f("Leaf", wRaw), sl("Proof", "Hash256")},
		"V2FileContractExpiration": {},
		"V2FileContractResolution": {st("Parent", "V2FileContractElement"), custom("Resolution", wResolution)},
		"Attestation":              {f("PublicKey", wRaw), f("Key", wBytes), f("Value", wBytes), f("Signature", wRaw)},
		"V2Transaction":            {custom("", wV2Transaction)},
		"V2TransactionsMultiproof": {custom("", wMultiproof)},
		"V2BlockData":              {f("Height", wU64), f("Commitment", wRaw), st("Transactions", "V2TransactionsMultiproof")},
		"BlockHeader":              {f("ParentID", wRaw), f("Nonce", wU64), f("Timestamp", wTime), f("Commitment", wRaw)},
		"V1Block":                  {f("ParentID", wRaw), f("Nonce", wU64), f("Timestamp", wTime), sl("MinerPayouts", "V1SiacoinOutput"), sl("Transactions", "Transaction")},
		"V2Block":                  {st("", "V1Block"), ptr("V2", "V2BlockData")},
		"State": {st("Index", "ChainIndex"), custom("", wPrevTimestamps), f("Depth", wRaw), f("ChildTarget", wRaw), f("SiafundTaxRevenue", wCurV2),
			f("OakTime", wU64), f("OakTarget", wRaw), f("FoundationSubsidyAddress", wRaw), f("FoundationManagementAddress", wRaw),
			st("TotalWork", "Work"), st("Difficulty", "Work"), st("OakWork", "Work"), st("Elements", "ElementAccumulator"), f("Attestations", wU64)},
		"ElementAccumulator":       {f("NumLeaves", wU64), custom("", wTrees)},
		"Work":                     {f("n", wRaw)},
		"V1StorageProofSupplement": {st("FileContract", "FileContractElement"), f("WindowID", wRaw)},
		"V1TransactionSupplement": {sl("SiacoinInputs", "SiacoinElement"), sl("SiafundInputs", "SiafundElement"),
			sl("RevisedFileContracts", "FileContractElement"), sl("StorageProofs", "V1StorageProofSupplement")},
		"V1BlockSupplement": {sl("Transactions", "V1TransactionSupplement"), sl("ExpiringFileContracts", "FileContractElement")},
	}
}

// WireSpec encodes the value pointed to by ptr according to the named layout.
func WireSpec(layout string, ptr any) []byte {
	x := &wctx{}
	x.layout(layout, reflect.ValueOf(ptr).Elem())
	return x.w.B
}

func field(v reflect.Value, name string) reflect.Value {
	if name == "" {
		return v
	}
	for _, part := range strings.Split(name, ".") {
		fv := v.FieldByName(part)
		if !fv.IsValid() {
			panic(fmt.Sprintf("WireSpec: %v has no field %q (the table must be updated)", v.Type(), part))
		}
		if !fv.CanInterface() {
			fv = reflect.NewAt(fv.Type(), unsafe.Pointer(fv.UnsafeAddr())).Elem()
		}
		v = fv
	}
	return v
}

func (x *wctx) layout(name string, v reflect.Value) {
	fs, ok := layouts[name]
	if !ok {
		panic("WireSpec: unknown layout " + name)
	}
	for _, fl := range fs {
		if fl.K == wZeroCurV1 {
			x.w.U64(0)
			continue
		}
		x.value(fl, field(v, fl.Name))
	}
}

func (x *wctx) prim(k wkind, v reflect.Value) {
	switch k {
	case wU64:
		switch v.Kind() {
		case reflect.Int64, reflect.Int:
			x.w.U64(uint64(v.Int()))
		default:
			if v.Type().Bits() != 64 {
				panic(fmt.Sprintf("WireSpec: %v is not a 64-bit integer", v.Type()))
			}
			x.w.U64(v.Uint())
		}
	case wU8:
		if v.Kind() != reflect.Uint8 {
			panic(fmt.Sprintf("WireSpec: %v is not a uint8", v.Type()))
		}
		x.w.U8(uint8(v.Uint()))
	case wBool:
		x.w.Bool(v.Bool())
	case wRaw:
		if v.Kind() != reflect.Array || v.Type().Elem().Kind() != reflect.Uint8 {
			panic(fmt.Sprintf("WireSpec: %v is not a byte array", v.Type()))
		}
		for i := 0; i < v.Len(); i++ {
			x.w.U8(uint8(v.Index(i).Uint()))
		}
	case wBytes:
		if v.Kind() == reflect.String {
			x.w.Bytes([]byte(v.String()))
		} else {
			x.w.Bytes(v.Bytes())
		}
	case wTime:
		t := v.Convert(reflect.TypeOf(time.Time{})).Interface().(time.Time)
		x.w.U64(uint64(t.Unix()))
	case wCurV1:
		x.w.CurV1(types.NewCurrency(v.Field(0).Uint(), v.Field(1).Uint()))
	case wCurV2:
		if v.Type().Field(0).Name != "Lo" || v.Type().Field(1).Name != "Hi" {
			panic("WireSpec: currency fields renamed")
		}
		x.w.U64(v.Field(0).Uint())
		x.w.U64(v.Field(1).Uint())
	case wU64CurV1:
		x.w.CurV1(types.NewCurrency64(v.Uint()))
	default:
		panic("WireSpec: not a primitive kind")
	}
}

func (x *wctx) value(fl wfield, v reflect.Value) {
	switch fl.K {
	case wStruct:
		x.layout(fl.Layout, v)
	case wSlice:
		x.w.U64(uint64(v.Len()))
		for i := 0; i < v.Len(); i++ {
			if fl.Layout != "" {
				x.layout(fl.Layout, v.Index(i))
			} else {
				x.prim(fl.Elem, v.Index(i))
			}
		}
	case wPtr:
		x.w.Bool(!v.IsNil())
		if !v.IsNil() {
			x.layout(fl.Layout, v.Elem())
		}
	case wCustom:
		fl.Fn(x, v)
	default:
		x.prim(fl.K, v)
	}
}

// ---- custom parts -------------------------------------------------------

// wPolicy: version byte 1, then the policy body. Opcodes: 1 above(u64),
// 2 after(time), 3 pk(32), 4 hash(32), 5 threshold(n u8, count u8, bodies),
// 6 opaque(32), 7 unlock conditions.
func wPolicy(x *wctx, v reflect.Value) {
	x.w.U8(1)
	wPolicyBody(x, v.Interface().(types.SpendPolicy))
}

func wPolicyBody(x *wctx, p types.SpendPolicy) {
	switch t := p.Type.(type) {
	case types.PolicyTypeAbove:
		x.w.U8(1)
		x.w.U64(uint64(t))
	case types.PolicyTypeAfter:
		x.w.U8(2)
		x.w.U64(uint64(time.Time(t).Unix()))
	case types.PolicyTypePublicKey:
		x.w.U8(3)
		x.w.Raw(t[:])
	case types.PolicyTypeHash:
		x.w.U8(4)
		x.w.Raw(t[:])
	case types.PolicyTypeThreshold:
		x.w.U8(5)
		x.w.U8(t.N)
		x.w.U8(uint8(len(t.Of)))
		for _, c := range t.Of {
			wPolicyBody(x, c)
		}
	case types.PolicyTypeOpaque:
		x.w.U8(6)
		x.w.Raw(t[:])
	case types.PolicyTypeUnlockConditions:
		x.w.U8(7)
		uc := types.UnlockConditions(t)
		x.layout("UnlockConditions", reflect.ValueOf(&uc).Elem())
	default:
		panic(fmt.Sprintf("WireSpec: unknown policy type %T (the table must be updated)", t))
	}
}

// wMerkleProof: count + hashes; inside a multiproof form, elements with an
// assigned leaf index carry an empty proof.
func wMerkleProof(x *wctx, se reflect.Value) {
	e := se.Addr().Interface().(*types.StateElement)
	if x.multiproof && e.LeafIndex != types.UnassignedLeafIndex {
		x.w.U64(0)
		return
	}
	x.w.U64(uint64(len(e.MerkleProof)))
	for _, h := range e.MerkleProof {
		x.w.Raw(h[:])
	}
}

// wResolution: type byte 0 renewal, 1 storage proof, 2 expiration; then body.
func wResolution(x *wctx, v reflect.Value) {
	switch r := v.Interface().(type) {
	case *types.V2FileContractRenewal:
		x.w.U8(0)
		x.layout("V2FileContractRenewal", reflect.ValueOf(r).Elem())
	case *types.V2StorageProof:
		x.w.U8(1)
		x.layout("V2StorageProof", reflect.ValueOf(r).Elem())
	case *types.V2FileContractExpiration:
		x.w.U8(2)
	default:
		panic(fmt.Sprintf("WireSpec: unknown resolution type %T (the table must be updated)", r))
	}
}

// v2TxnFields: bitmap bit -> field, wire type. A field is present iff it is
// non-empty / non-nil / non-zero.
var v2TxnFields = []wfield{
	sl("SiacoinInputs", "V2SiacoinInput"),                     // bit 0
	sl("SiacoinOutputs", "V2SiacoinOutput"),                   // bit 1
	sl("SiafundInputs", "V2SiafundInput"),                     // bit 2
	sl("SiafundOutputs", "V2SiafundOutput"),                   // bit 3
	sl("FileContracts", "V2FileContract"),                     // bit 4
	sl("FileContractRevisions", "V2FileContractRevision"),     // bit 5
	sl("FileContractResolutions", "V2FileContractResolution"), // bit 6
	sl("Attestations", "Attestation"),                         // bit 7
	f("ArbitraryData", wBytes),                                // bit 8
	f("NewFoundationAddress", wRaw),                           // bit 9 (pointer: present iff non-nil; no bool on the wire)
	f("MinerFee", wCurV2),                                     // bit 10
}

func wV2Transaction(x *wctx, v reflect.Value) {
	if v.NumField() != len(v2TxnFields) {
		panic(fmt.Sprintf("WireSpec: V2Transaction has %d fields, the table knows %d", v.NumField(), len(v2TxnFields)))
	}
	x.w.U8(2)
	var bitmap uint64
	present := make([]bool, len(v2TxnFields))
	for i, fl := range v2TxnFields {
		fv := v.FieldByName(fl.Name)
		switch fv.Kind() {
		case reflect.Slice:
			present[i] = fv.Len() != 0
		case reflect.Pointer:
			present[i] = !fv.IsNil()
		default: // currency
			present[i] = fv.Field(0).Uint() != 0 || fv.Field(1).Uint() != 0
		}
		if present[i] {
			bitmap |= 1 << uint(i)
		}
	}
	x.w.U64(bitmap)
	for i, fl := range v2TxnFields {
		if !present[i] {
			continue
		}
		fv := v.FieldByName(fl.Name)
		if fv.Kind() == reflect.Pointer {
			fv = fv.Elem()
		}
		x.value(fl, fv)
	}
}

// wSemantics: the "semantic" encoding used for v2 transaction IDs and
// signature hashes (no bitmap, no version; parents by ID; signatures zeroed;
// proofs of storage-proof indices dropped).
func wSemantics(txn *types.V2Transaction) []byte {
	x := &wctx{}
	rv := func(p any) reflect.Value { return reflect.ValueOf(p).Elem() }
	x.w.U64(uint64(len(txn.SiacoinInputs)))
	for _, in := range txn.SiacoinInputs {
		x.w.Raw(in.Parent.ID[:])
	}
	x.w.U64(uint64(len(txn.SiacoinOutputs)))
	for i := range txn.SiacoinOutputs {
		x.layout("V2SiacoinOutput", rv(&txn.SiacoinOutputs[i]))
	}
	x.w.U64(uint64(len(txn.SiafundInputs)))
	for _, in := range txn.SiafundInputs {
		x.w.Raw(in.Parent.ID[:])
		// the claim address is an effect-bearing field of the input and part of
		// the semantic form (repository commit 9ffdb79; the original snapshot
		// omitted it, which this table flagged as a layout difference)
		x.w.Raw(in.ClaimAddress[:])
	}
	x.w.U64(uint64(len(txn.SiafundOutputs)))
	for i := range txn.SiafundOutputs {
		x.layout("V2SiafundOutput", rv(&txn.SiafundOutputs[i]))
	}
	noSigs := func(fc types.V2FileContract) types.V2FileContract {
		fc.RenterSignature, fc.HostSignature = types.Signature{}, types.Signature{}
		return fc
	}
	x.w.U64(uint64(len(txn.FileContracts)))
	for _, fc := range txn.FileContracts {
		fc = noSigs(fc)
		x.layout("V2FileContract", rv(&fc))
	}
	x.w.U64(uint64(len(txn.FileContractRevisions)))
	for _, r := range txn.FileContractRevisions {
		x.w.Raw(r.Parent.ID[:])
		fc := noSigs(r.Revision)
		x.layout("V2FileContract", rv(&fc))
	}
	x.w.U64(uint64(len(txn.FileContractResolutions)))
	for _, r := range txn.FileContractResolutions {
		x.w.Raw(r.Parent.ID[:])
		switch res := r.Resolution.(type) {
		case *types.V2FileContractRenewal:
			c := *res
			c.NewContract = noSigs(c.NewContract)
			c.RenterSignature, c.HostSignature = types.Signature{}, types.Signature{}
			x.layout("V2FileContractRenewal", rv(&c))
		case *types.V2StorageProof:
			c := *res
			c.ProofIndex.StateElement.MerkleProof = nil
			x.layout("V2StorageProof", rv(&c))
		case *types.V2FileContractExpiration:
		}
	}
	x.w.U64(uint64(len(txn.Attestations)))
	for i := range txn.Attestations {
		x.layout("Attestation", rv(&txn.Attestations[i]))
	}
	x.w.Bytes(txn.ArbitraryData)
	x.w.Bool(txn.NewFoundationAddress != nil)
	if txn.NewFoundationAddress != nil {
		x.w.Raw(txn.NewFoundationAddress[:])
	}
	x.w.CurV2(txn.MinerFee)
	return x.w.B
}

func wPrevTimestamps(x *wctx, s reflect.Value) {
	h := s.FieldByName("Index").FieldByName("Height").Uint()
	n := 11
	if h+1 < 11 { // h+1 wraps to 0 for the pre-genesis state
		n = int(h + 1)
	}
	ts := s.FieldByName("PrevTimestamps")
	for i := 0; i < n; i++ {
		x.prim(wTime, ts.Index(i))
	}
}

func wTrees(x *wctx, acc reflect.Value) {
	n := acc.FieldByName("NumLeaves").Uint()
	trees := acc.FieldByName("Trees")
	if trees.Len() != 64 {
		panic("WireSpec: accumulator tree count changed")
	}
	for k := 0; k < 64; k++ {
		if n&(1<<uint(k)) != 0 {
			x.prim(wRaw, trees.Index(k))
		}
	}
}

// ---- multiproof ----------------------------------------------------------

type mpLeaf struct {
	index uint64
	proof []types.Hash256
}

// multiproofLeaves lists the accumulator leaves referenced by the
// transactions: parents of siacoin/siafund inputs, of contract revisions and
// resolutions, and the chain index element of storage proofs; ephemeral
// (unassigned) elements are not leaves.
func multiproofLeaves(txns []types.V2Transaction) (ls []mpLeaf) {
	add := func(se *types.StateElement) {
		if se.LeafIndex != types.UnassignedLeafIndex {
			ls = append(ls, mpLeaf{se.LeafIndex, se.MerkleProof})
		}
	}
	for i := range txns {
		t := &txns[i]
		for j := range t.SiacoinInputs {
			add(&t.SiacoinInputs[j].Parent.StateElement)
		}
		for j := range t.SiafundInputs {
			add(&t.SiafundInputs[j].Parent.StateElement)
		}
		for j := range t.FileContractRevisions {
			add(&t.FileContractRevisions[j].Parent.StateElement)
		}
		for j := range t.FileContractResolutions {
			add(&t.FileContractResolutions[j].Parent.StateElement)
			if sp, ok := t.FileContractResolutions[j].Resolution.(*types.V2StorageProof); ok {
				add(&sp.ProofIndex.StateElement)
			}
		}
	}
	return
}

// naiveMultiproof computes, set-theoretically, the hashes a verifier needs in
// addition to the leaves themselves: for every leaf and every level l of its
// tree, the sibling subtree at that level is needed iff it contains none of the
// leaves. Trees are handled in order of increasing height; within a tree the
// needed subtrees are disjoint and are emitted left to right (which is the
// order a depth-first left-before-right traversal meets them).
func naiveMultiproof(ls []mpLeaf) (numLeaves uint64, proof []types.Hash256) {
	byHeight := map[int][]mpLeaf{}
	for _, l := range ls {
		h := len(l.proof)
		byHeight[h] = append(byHeight[h], l)
		// the leaf count is inferred: the tree of height h that holds the leaf
		// starts at the leaf index with its low h bits cleared, and exists
		numLeaves |= (l.index>>uint(h))<<uint(h) | 1<<uint(h)
	}
	var heights []int
	for h := range byHeight {
		heights = append(heights, h)
	}
	sort.Ints(heights)
	for _, h := range heights {
		leaves := byHeight[h]
		has := func(level int, node uint64) bool { // does subtree (level,node) contain a leaf?
			for _, l := range leaves {
				if l.index>>uint(level) == node {
					return true
				}
			}
			return false
		}
		type need struct {
			start uint64
			hash  types.Hash256
		}
		seen := map[[2]uint64]bool{}
		var needs []need
		for _, l := range leaves {
			for level := 0; level < h; level++ {
				sib := (l.index >> uint(level)) ^ 1
				if has(level, sib) || seen[[2]uint64{uint64(level), sib}] {
					continue
				}
				seen[[2]uint64{uint64(level), sib}] = true
				needs = append(needs, need{sib << uint(level), l.proof[level]})
			}
		}
		sort.Slice(needs, func(i, j int) bool { return needs[i].start < needs[j].start })
		for _, n := range needs {
			proof = append(proof, n.hash)
		}
	}
	return
}

func wMultiproof(x *wctx, v reflect.Value) {
	txns := v.Convert(reflect.TypeOf([]types.V2Transaction(nil))).Interface().([]types.V2Transaction)
	old := x.multiproof
	x.multiproof = true
	x.w.U64(uint64(len(txns)))
	for i := range txns {
		x.layout("V2Transaction", reflect.ValueOf(&txns[i]).Elem())
	}
	x.multiproof = old
	numLeaves, proof := naiveMultiproof(multiproofLeaves(txns))
	x.w.U64(numLeaves)
	for _, h := range proof {
		x.w.Raw(h[:])
	}
}

var _ = bits.Len64
