// Package c11: binary encoding round-trips, is canonical, field-complete and
// wire-format exact. Bounded exhaustive enumeration (E2) over the structured
// value domain of every codec in the shared inventory (package codec).
package c11

import (
	"bytes"
	"encoding/hex"
	"encoding/json"
	"fmt"
	"go/ast"
	"go/parser"
	"go/token"
	"os"
	"path/filepath"
	"sort"
	"strings"
	"sync"
	"sync/atomic"

	"go.sia.tech/core/types"
	"verifmc/codec"
	"verifmc/spec"
	"verifmc/vf"
)

func init() {
	vf.Register(&vf.Check{ID: "C11", Level: "exploration", Run: run, Replay: replay})
}

// A Case identifies one domain value: a base and the deviations applied to it.
type Case struct {
	Entry  string   `json:"entry"`
	Base   string   `json:"base"`
	Paths  []string `json:"deviations,omitempty"`
	Oracle string   `json:"oracle,omitempty"`
	Hex    string   `json:"encoding_hex_prefix,omitempty"`
}

type checker struct {
	c     *vf.Ctx
	quick bool
	// hot counters
	values, roundtrips, canon, complete, ntChecks, wire, prefixDecodes, prefixValues, skippedInvalid, noRoundTrip *atomic.Int64
	ntSeen                                                                                                        sync.Map // rule -> *atomic.Int64
	reused   *atomic.Int64
	usedRecv func(e *codec.Entry) any
	dirty    sync.Map // entry name -> [2][]byte (encodings of the "max" and "typical" profiles)
}

func newChecker(c *vf.Ctx) *checker {
	k := &checker{c: c, quick: c.Quick(),
		values: c.Counter("evaluations"), roundtrips: c.Counter("roundtrip_checks"), canon: c.Counter("canonical_reencode_checks"),
		complete: c.Counter("field_completeness_checks"), ntChecks: c.Counter("not_transmitted_checks"), wire: c.Counter("wirespec_checks"),
		prefixDecodes: c.Counter("prefix_decodes_rejected"), prefixValues: c.Counter("values_with_all_prefixes_checked"),
		skippedInvalid: c.Counter("deviations_invalid_for_encoder"), noRoundTrip: c.Counter("deviations_completeness_only")}
	k.reused = c.Counter("used_receiver_decodes")
	// NOT ASSERTED (kept for experiments, VERIF_C11_USED_RECEIVER=1): decoding into a receiver that has been used
	// before. The library's decoders assume a fresh receiver (absent optional parts of a V2Transaction, unused
	// accumulator trees, the data of an error response are simply not touched), which the property does not forbid -
	// on the unchanged tree this oracle reported 16 such places, all of that kind: a false alarm by the classification
	// rule of DESIGN.md section 5, so the oracle is off. Receiver reuse is asserted where the protocol code itself
	// does it: C19 reads every message of one type of a session into the same variable.
	if os.Getenv("VERIF_C11_USED_RECEIVER") != "1" {
		return k
	}
	k.usedRecv = func(e *codec.Entry) any {
		// a receiver that has just decoded another value of the type (profile "max": 0xFF bytes, two-element lists,
		// every optional part present)
		v, ok := k.dirty.Load(e.Name)
		if !ok {
			b, p := e.SafeEncode(e.Generic(codec.PMax))
			if p != nil {
				b = nil
			}
			v, _ = k.dirty.LoadOrStore(e.Name, b)
		}
		b := v.([]byte)
		if b == nil {
			return nil
		}
		r := e.New()
		var err error
		if pv, _ := vf.Try(func() { err = e.DecodeInto(r, b) }); pv != nil || err != nil {
			return nil
		}
		return r
	}
	return k
}

func shortHex(b []byte) string {
	if len(b) > 96 {
		return hex.EncodeToString(b[:96]) + "..."
	}
	return hex.EncodeToString(b)
}

func (k *checker) violate(oracle string, e *codec.Entry, cs Case, where, format string, a ...any) {
	cs.Oracle = oracle
	sig := fmt.Sprintf("%s|%s", oracle, e.Name)
	if where != "" {
		sig += "|" + where
	}
	k.c.Violate(sig, fmt.Sprintf("[%s, base %q, deviations %v] ", e.Name, cs.Base, cs.Paths)+fmt.Sprintf(format, a...), cs)
}

func safeEncode(e *codec.Entry, v any) (b []byte, p any) {
	p, _ = vf.Try(func() { b = e.Encode(v) })
	return
}

func safeDecode(e *codec.Entry, b []byte) (v any, err error, p any, st string) {
	p, st = vf.Try(func() { v, err = e.Decode(b) })
	return
}

// prefixScope decides whether oracle (5) is applied to a single deviation
// (it is applied to every base value). The cost of the oracle is quadratic in
// the encoding length, so deviations of long encodings are exempt; deviations
// that keep the length of a longer encoding only change scalar content, which
// cannot change where a truncated decode fails.
func (k *checker) prefixScope(baseLen, n int) bool {
	if k.quick {
		return n <= 256 || (n != baseLen && n <= 1024)
	}
	return n <= 1024 || (n != baseLen && n <= 6144)
}

// checkValue runs oracles (1), (2), (4) and optionally (5) on one value.
func (k *checker) checkValue(e *codec.Entry, v any, enc []byte, cs Case, _ string, prefixes bool) {
	const where = ""
	// (2) determinism
	enc2, p := safeEncode(e, v)
	if p != nil {
		k.violate("encode-panic", e, cs, where, "second encoding panicked: %v", p)
		return
	}
	if !bytes.Equal(enc, enc2) {
		k.violate("nondeterministic-encoding", e, cs, where, "encoding the same value twice gave different bytes")
		return
	}
	// (1) round trip
	dec, err, p, st := safeDecode(e, enc)
	k.roundtrips.Add(1)
	if p != nil {
		k.violate("decode-panic", e, cs, where, "decoding a valid encoding panicked: %v\n%s", p, st)
		return
	}
	if err != nil {
		k.violate("roundtrip-decode-error", e, cs, where, "decoding the encoding of a valid value failed: %v (encoding %s)", err, shortHex(enc))
		return
	}
	want := e.Canon(v)
	if d := codec.Equal(want, dec); d != "" {
		k.violate("roundtrip-mismatch", e, cs, codec.ShortPath(strings.SplitN(d, ":", 2)[0]), "decode(encode(v)) differs from v (modulo documented normalisations) at %s", d)
		return
	}
	// (1b) the same into a receiver that has been used before (a protocol loop reads every message of one type into
	// one variable): the previous contents must not show through
	if k.usedRecv != nil && e.DecodeInto != nil {
		if prev := k.usedRecv(e); prev != nil {
			var derr error
			if pv, st := vf.Try(func() { derr = e.DecodeInto(prev, enc) }); pv != nil {
				k.violate("decode-panic", e, cs, where, "decoding into a used receiver panicked: %v\n%s", pv, st)
				return
			}
			k.reused.Add(1)
			if derr != nil {
				k.violate("used-receiver-decode-error", e, cs, where, "decoding a valid encoding into a previously used receiver failed: %v", derr)
				return
			}
			if d := codec.Equal(want, prev); d != "" {
				k.violate("used-receiver-mismatch", e, cs, codec.ShortPath(strings.SplitN(d, ":", 2)[0]), "decoding into a previously used receiver gives a different value than decoding into a fresh one, at %s", d)
				return
			}
		}
	}
	// (2) canonical re-encoding
	re, p := safeEncode(e, dec)
	k.canon.Add(1)
	if p != nil {
		k.violate("encode-panic", e, cs, where, "re-encoding the decoded value panicked: %v", p)
		return
	}
	if !bytes.Equal(re, enc) {
		k.violate("noncanonical-reencoding", e, cs, where, "encode(decode(encode(v))) != encode(v): %s vs %s", shortHex(re), shortHex(enc))
		return
	}
	// (4) wire exactness
	if e.Layout != "" {
		k.wire.Add(1)
		var ws []byte
		if p, st := vf.Try(func() { ws = WireSpec(e.Layout, v) }); p != nil {
			k.violate("wirespec-table-outdated", e, cs, where, "the WireSpec table cannot describe the value: %v\n%s", p, st)
			return
		}
		if !bytes.Equal(ws, enc) {
			i := 0
			for i < len(ws) && i < len(enc) && ws[i] == enc[i] {
				i++
			}
			k.violate("wire-layout", e, cs, where, "bytes differ from the specified layout at offset %d (len %d vs spec %d): got ...%s, spec ...%s", i, len(enc), len(ws), shortHex(enc[max(0, i-8):]), shortHex(ws[max(0, i-8):]))
			return
		}
		k.wireExtras(e, v, cs, where)
	}
	// (5) every proper prefix fails to decode
	if prefixes {
		k.prefixValues.Add(1)
		long := codec.IsLongBytes(cs.Base)
		for n := 0; n < len(enc); n++ {
			if long && n >= 4096 && n < len(enc)-4096 && n%65536 > 2 && n%65536 < 65534 && n%251 != 0 {
				continue // long-byte-string bases: prefixes near both ends, around every 64 KiB boundary and every 251st
			}
			_, err, p, st := safeDecode(e, enc[:n])
			if p != nil {
				k.violate("decode-panic", e, cs, where, "decoding a %d-byte prefix of a %d-byte encoding panicked: %v\n%s", n, len(enc), p, st)
				return
			}
			if err == nil {
				k.violate("prefix-accepted", e, cs, where, "the %d-byte proper prefix of a %d-byte encoding decodes without error (partial success)", n, len(enc))
				return
			}
			k.prefixDecodes.Add(1)
		}
	}
}

// wireExtras checks the derived consensus encodings that have no decoder: the
// sans-signature form of v1 transactions (through the transaction ID) and the
// semantic form of v2 transactions (directly and through the ID).
func (k *checker) wireExtras(e *codec.Entry, v any, cs Case, where string) {
	switch t := v.(type) {
	case *types.Transaction:
		want := spec.H(WireSpec("TransactionSansSigs", t))
		if got := t.ID(); types.Hash256(got) != want {
			k.violate("wire-layout", e, cs, "sans-signature form (Transaction.ID)", "Transaction.ID() = %v, but blake2b(specified sans-signature layout) = %v", got, want)
		}
		k.c.Count("sans_signature_id_checks", 1)
	case *types.V2Transaction:
		ws := wSemantics(t)
		got := codec.Enc(types.V2TransactionSemantics(*t).EncodeTo)
		if !bytes.Equal(ws, got) {
			i := 0
			for i < len(ws) && i < len(got) && ws[i] == got[i] {
				i++
			}
			k.violate("wire-layout", e, cs, "V2TransactionSemantics", "semantic encoding differs from the specified layout at offset %d (len %d vs spec %d): got ...%s, spec ...%s", i, len(got), len(ws), shortHex(got[max(0, i-8):]), shortHex(ws[max(0, i-8):]))
		}
		var w spec.W
		w.Str("sia/id/transaction|")
		w.Raw(ws)
		if id := t.ID(); types.Hash256(id) != spec.H(w.B) {
			k.violate("wire-layout", e, cs, "V2Transaction.ID", "V2Transaction.ID() is not blake2b(\"sia/id/transaction|\" || specified semantic layout)")
		}
		k.c.Count("v2_semantics_checks", 1)
	}
}

// boolStrictness is oracle (6): a deviation that flips exactly one byte of the
// encoding between 0 and 1 at the first point of difference has located a
// boolean (a bool field or a pointer-presence flag) on the wire; the decoder
// must reject every other value of that byte (types/encoding.go ReadBool), so
// that no two byte strings decode to the same boolean.
func (k *checker) boolStrictness(e *codec.Entry, enc, menc []byte, cs Case, mpath, where string) {
	p := 0
	for p < len(enc) && p < len(menc) && enc[p] == menc[p] {
		p++
	}
	if p >= len(enc) || p >= len(menc) || enc[p] > 1 || menc[p] != 1-enc[p] {
		return
	}
	if !(strings.HasSuffix(mpath, "!") || strings.HasSuffix(mpath, "=nil") || strings.HasSuffix(mpath, "=new")) {
		return
	}
	if len(enc) == len(menc) && !bytes.Equal(enc[p+1:], menc[p+1:]) {
		return
	}
	for _, x := range []byte{2, 0x80, 0xFF} {
		mut := append([]byte(nil), enc...)
		mut[p] = x
		_, err, pv, st := safeDecode(e, mut)
		k.c.Count("bool_strictness_decodes", 1)
		if pv != nil {
			k.violate("decode-panic", e, cs, where, "decoding with bool byte %#x at offset %d panicked: %v\n%s", x, p, pv, st)
			return
		}
		if err == nil {
			k.violate("bool-lenient", e, cs, where, "the boolean at offset %d (located by flipping %s) accepts the byte %#x: two encodings decode to the same value", p, mpath, x)
			return
		}
	}
}

func (k *checker) noteNT(rule string) {
	ctr, _ := k.ntSeen.LoadOrStore(rule, new(atomic.Int64))
	ctr.(*atomic.Int64).Add(1)
}

// runBase checks one base value and all its deviations.
func (k *checker) runBase(e *codec.Entry, b codec.Base) {
	cs := Case{Entry: e.Name, Base: b.Label}
	enc, p := safeEncode(e, b.V)
	if p != nil {
		k.violate("encode-panic", e, cs, "(base)", "encoding a base value panicked: %v", p)
		return
	}
	cs.Hex = shortHex(enc)
	k.values.Add(1)
	k.c.Distinct(e.Name, b.Label)
	k.checkValue(e, b.V, enc, cs, "(base)", true)

	muts := e.Mutations(b)
	if codec.IsLongBytes(b.Label) {
		muts = nil // base-level oracles only (round trip, canonicity, layout, prefixes): deviations are covered on the small bases
		k.c.Count("long_byte_string_bases", 1)
	}
	one := func(ms []*codec.Mutation, single bool) {
		paths := make([]string, len(ms))
		for i, m := range ms {
			paths[i] = m.Path
		}
		mcs := Case{Entry: e.Name, Base: b.Label, Paths: paths}
		for _, m := range ms {
			m.Apply()
		}
		defer func() {
			for i := len(ms) - 1; i >= 0; i-- {
				ms[i].Undo()
			}
		}()
		where := codec.ShortPath(ms[len(ms)-1].Field)
		menc, p := safeEncode(e, b.V)
		if p != nil {
			k.violate("encode-panic", e, mcs, "", "encoding a deviated value panicked: %v", p)
			return
		}
		mcs.Hex = shortHex(menc)
		k.values.Add(1)
		k.c.Distinct(e.Name, b.Label, paths)
		noRT := false
		if single {
			m := ms[0]
			// (3) field completeness, asserted in both directions
			if m.NT == "" {
				k.complete.Add(1)
				if bytes.Equal(menc, enc) {
					k.violate("field-not-encoded", e, mcs, where, "changing %s does not change the encoding, and the field is not in the documented not-transmitted table", m.Path)
				}
			} else {
				k.ntChecks.Add(1)
				k.noteNT(m.NT)
				if !bytes.Equal(menc, enc) {
					k.violate("not-transmitted-table-too-wide", e, mcs, where, "%s is listed as not transmitted (%s) but changing it changes the encoding", m.Path, m.NT)
				}
			}
		}
		if single {
			k.boolStrictness(e, enc, menc, mcs, ms[0].Path, where)
		}
		for _, m := range ms {
			noRT = noRT || m.NoRoundTrip
		}
		if noRT {
			k.noRoundTrip.Add(1)
			return
		}
		if e.Valid != nil && !e.Valid(b.V) {
			k.skippedInvalid.Add(1)
			return
		}
		k.checkValue(e, b.V, menc, mcs, where, single && k.prefixScope(len(enc), len(menc)))
	}
	for i := range muts {
		if k.c.Expired() {
			return
		}
		one([]*codec.Mutation{&muts[i]}, true)
	}
	// self-check of the harness: all deviations were undone
	if after, _ := safeEncode(e, b.V); !bytes.Equal(after, enc) {
		k.c.HarnessError("deviations of %s base %q were not undone cleanly", e.Name, b.Label)
	}
	if !k.quick {
		// pairwise deviations (thorough); oracles (1)(2)(4)
		n := len(muts)
		const maxPairPoints = 150
		if n > maxPairPoints {
			k.c.Count("pairwise_bases_capped", 1)
			k.c.NotExhaustive(fmt.Sprintf("pairwise deviations (thorough): bases with more than %d deviation points use an evenly spread subset of %d points", maxPairPoints, maxPairPoints))
			// keep an evenly spread subset of the deviation points
			var sub []codec.Mutation
			for i := 0; i < maxPairPoints; i++ {
				sub = append(sub, muts[i*n/maxPairPoints])
			}
			muts, n = sub, maxPairPoints
		}
		for i := 0; i < n; i++ {
			if k.c.Expired() {
				return
			}
			for j := i + 1; j < n; j++ {
				if sameLeaf(muts[i].Path, muts[j].Path) {
					continue
				}
				k.c.Count("pairwise_values", 1)
				one([]*codec.Mutation{&muts[i], &muts[j]}, false)
			}
		}
	}
}

// sameLeaf reports whether two mutation paths address the same leaf or one is
// inside a subtree the other replaces (their combination is not a pair).
func sameLeaf(a, b string) bool {
	strip := func(p string) string {
		for _, suf := range []string{"[drop last]", "[dup last]", "[append zero]", "=nil", "=new"} {
			if strings.HasSuffix(p, suf) {
				return strings.TrimSuffix(p, suf)
			}
		}
		if i := strings.LastIndexAny(p, ".]"); i >= 0 {
			return p[:i+1]
		}
		return p
	}
	sa, sb := strip(a), strip(b)
	return strings.HasPrefix(sa, sb) || strings.HasPrefix(sb, sa)
}

func run(c *vf.Ctx) {
	codec.Seed = c.Seed
	k := newChecker(c)
	c.Set("rule", "for every inventory entry (every type of types, consensus, gateway, rhp/v2, rhp/v3, rhp/v4 with an encoder/decoder pair): every base value "+
		"(6 generic profiles zero/one/typical/2^32,2^64/2^63,2^127/max + every sum-type variant + values from real chains) and every single-leaf deviation of every base "+
		"produced by a reflection walk (thorough: also all pairs of deviations); a case is non-trivial when it is a distinct (entry, base, deviation path set)")
	c.Assume("the WireSpec table (checks/c11/wirespec.go) is the protocol's byte layout; it was written from the layout rules, independently of the encoder call graph")
	c.Assume("blake2b-256 of golang.org/x/crypto is used for the ID checks of the sans-signature and semantic forms")
	c.Assume("OutlineTransaction.Hash of present transactions is recomputed with the repository's MerkleLeafHash (outside the codec under test)")

	inventoryCrossCheck(c)
	if _, err := codec.ChainVals(); err != nil {
		c.HarnessError("chain-derived corpus: %v", err)
	}

	type unit struct {
		e *codec.Entry
		b codec.Base
	}
	var units []unit
	perPkg := map[string]int{}
	basesPerPkg := map[string]int{}
	layoutEntries := 0
	real := 0
	for _, e := range codec.Entries() {
		perPkg[e.Pkg]++
		if e.Layout != "" {
			layoutEntries++
		}
		bs := selectBases(c, e, e.Bases())
		basesPerPkg[e.Pkg] += len(bs)
		for _, b := range bs {
			if b.Real {
				real++
			}
			units = append(units, unit{e, b})
		}
	}
	// big units first for better load balance
	sizes := map[any]int{}
	for _, u := range units {
		eb, _ := u.e.SafeEncode(u.b.V)
		sizes[u.b.V] = len(eb)
	}
	sort.SliceStable(units, func(i, j int) bool { return sizes[units[i].b.V] > sizes[units[j].b.V] })
	c.Set("inventory_entries", len(codec.Entries()))
	c.Set("inventory_entries_per_package", perPkg)
	c.Set("base_values_per_package", basesPerPkg)
	c.Set("base_values", len(units))
	c.Set("base_values_from_real_chains", real)
	c.Set("entries_with_wirespec_layout", layoutEntries)
	c.Set("not_transmitted_table", codec.NotTransmitted)
	c.Set("prefix_oracle_scope", vf.Pick(c, "every base value; every single deviation whose encoding is <= 256 bytes, or <= 1024 bytes with a length different from its base",
		"every base value; every single deviation whose encoding is <= 1024 bytes, or <= 6144 bytes with a length different from its base"))
	c.Set("caps", vf.Pick(c, "quick: per entry at most 3 chain-derived base values (the longest encodings) in addition to all generic and variant bases; single deviations only",
		"thorough: all chain-derived base values; pairwise deviations over at most 150 evenly spread deviation points per base; oracles (1)(2)(4) on pairs"))
	c.Set("multiproof_oracle", "expected multiproof bytes computed independently (set-based naive algorithm in wirespec.go) and compared byte for byte; decoded individual proofs compared with the originals")

	vf.ParallelFor(len(units), func(i int) {
		if c.Expired() {
			return
		}
		k.runBase(units[i].e, units[i].b)
	})

	nt := map[string]int64{}
	k.ntSeen.Range(func(key, v any) bool { nt[key.(string)] = v.(*atomic.Int64).Load(); return true })
	c.Set("not_transmitted_rules_exercised", nt)
	sampleCases(c)
	c.RequireFeature("evaluations", "roundtrip_checks", "canonical_reencode_checks", "field_completeness_checks", "not_transmitted_checks",
		"wirespec_checks", "prefix_decodes_rejected", "bool_strictness_decodes", "sans_signature_id_checks", "v2_semantics_checks", "multiproof_bases_with_shared_nodes")
}

// selectBases bounds the number of chain-derived bases of the big container
// types in the quick tier (the generic and variant bases are always kept).
func selectBases(c *vf.Ctx, e *codec.Entry, bs []codec.Base) []codec.Base {
	maxReal := vf.Pick(c, 3, 1<<30)
	var realIdx []int
	for i, b := range bs {
		if b.Real {
			realIdx = append(realIdx, i)
		}
		if b.Real && e.Multiproof {
			if v, ok := txnsOf(b.V); ok {
				n, proof := naiveMultiproof(multiproofLeaves(v))
				total := 0
				for _, l := range multiproofLeaves(v) {
					total += len(l.proof)
				}
				if n != 0 && len(proof) < total {
					c.Count("multiproof_bases_with_shared_nodes", 1)
				}
			}
		}
	}
	if len(realIdx) <= maxReal {
		return bs
	}
	// keep the maxReal chain values with the longest encodings plus none of the rest
	encLen := func(v any) int { b, _ := e.SafeEncode(v); return len(b) }
	sort.SliceStable(realIdx, func(i, j int) bool { return encLen(bs[realIdx[i]].V) > encLen(bs[realIdx[j]].V) })
	keep := map[int]bool{}
	for _, i := range realIdx[:maxReal] {
		keep[i] = true
	}
	var out []codec.Base
	for i, b := range bs {
		if !b.Real || keep[i] {
			out = append(out, b)
		}
	}
	c.Count("chain_bases_dropped_in_quick_tier", int64(len(realIdx)-maxReal))
	return out
}

func txnsOf(v any) ([]types.V2Transaction, bool) {
	switch t := v.(type) {
	case *types.V2TransactionsMultiproof:
		return []types.V2Transaction(*t), true
	case *types.V2BlockData:
		return t.Transactions, true
	case *types.V2Block:
		if t.V2 != nil {
			return t.V2.Transactions, true
		}
	}
	return nil, false
}

func sampleCases(c *vf.Ctx) {
	for _, name := range []string{"types.V2Transaction", "types.V2BlockData", "consensus.State", "rhp/v3.RPCExecuteProgramRequest", "gateway.V2BlockOutline"} {
		e := codec.Lookup(name)
		if e == nil {
			continue
		}
		bs := e.Bases()
		b := bs[len(bs)-1]
		ms := e.Mutations(b)
		eb0, _ := e.SafeEncode(b.V)
		cs := Case{Entry: name, Base: b.Label, Hex: shortHex(eb0)}
		if len(ms) > 0 {
			m := ms[len(ms)/2]
			m.Apply()
			cs.Paths = []string{m.Path}
			eb1, _ := e.SafeEncode(b.V)
			cs.Hex = shortHex(eb1)
			m.Undo()
		}
		c.Sample(cs)
	}
}

// inventoryCrossCheck parses the repository and compares the set of decoder
// methods with the inventory.
func inventoryCrossCheck(c *vf.Ctx) {
	repo := os.Getenv("VERIF_REPO")
	if repo == "" {
		repo = "/repo"
	}
	methods := map[string]bool{"DecodeFrom": true, "decodeFrom": true, "decodeRequest": true, "decodeResponse": true}
	found := map[string]bool{}
	perPkg := map[string]int{}
	for _, pkg := range codec.Packages {
		dir := filepath.Join(repo, pkg)
		fset := token.NewFileSet()
		pkgs, err := parser.ParseDir(fset, dir, func(fi os.FileInfo) bool { return !strings.HasSuffix(fi.Name(), "_test.go") }, 0)
		if err != nil {
			c.HarnessError("inventory cross-check: cannot parse %s: %v", dir, err)
			return
		}
		for _, p := range pkgs {
			for _, file := range p.Files {
				for _, d := range file.Decls {
					fd, ok := d.(*ast.FuncDecl)
					if !ok || fd.Recv == nil || !methods[fd.Name.Name] || len(fd.Recv.List) != 1 {
						continue
					}
					t := fd.Recv.List[0].Type
					if s, ok := t.(*ast.StarExpr); ok {
						t = s.X
					}
					id, ok := t.(*ast.Ident)
					if !ok {
						continue
					}
					found[pkg+":"+id.Name+"."+fd.Name.Name] = true
					perPkg[pkg]++
				}
			}
		}
	}
	covered := map[string]bool{}
	for _, e := range codec.Entries() {
		covered[e.Src] = true
	}
	var missing, stale []string
	for m := range found {
		if !covered[m] && codec.Excluded[m] == "" {
			missing = append(missing, m)
		}
	}
	for m := range covered {
		if !found[m] {
			stale = append(stale, m)
		}
	}
	sort.Strings(missing)
	sort.Strings(stale)
	c.Set("source_decoder_methods_per_package", perPkg)
	c.Set("source_decoder_methods_excluded", codec.Excluded)
	c.Set("source_decoder_methods_not_in_inventory", missing)
	if len(missing) > 0 {
		c.HarnessError("inventory drift: decoder methods without inventory entry: %v", missing)
	}
	if len(stale) > 0 {
		c.HarnessError("inventory drift: inventory entries whose decoder method is not in the source: %v", stale)
	}
}

func replay(c *vf.Ctx, raw json.RawMessage) {
	var cs Case
	if err := json.Unmarshal(raw, &cs); err != nil {
		c.HarnessError("bad case: %v", err)
		return
	}
	codec.Seed = c.Seed
	e := codec.Lookup(cs.Entry)
	if e == nil {
		c.HarnessError("unknown entry %q", cs.Entry)
		return
	}
	b, ok := e.BaseByLabel(cs.Base)
	if !ok {
		c.HarnessError("unknown base %q of %s", cs.Base, cs.Entry)
		return
	}
	k := newChecker(c)
	enc, _ := safeEncode(e, b.V)
	if len(cs.Paths) == 0 {
		k.values.Add(1)
		k.checkValue(e, b.V, enc, cs, "(base)", true)
		return
	}
	muts := e.Mutations(b)
	var ms []*codec.Mutation
	for _, p := range cs.Paths {
		m := codec.FindMutation(muts, p)
		if m == nil {
			c.HarnessError("unknown deviation %q", p)
			return
		}
		ms = append(ms, m)
	}
	for _, m := range ms {
		m.Apply()
	}
	menc, p := safeEncode(e, b.V)
	if p != nil {
		k.violate("encode-panic", e, cs, "", "encoding a deviated value panicked: %v", p)
		return
	}
	k.values.Add(1)
	where := codec.ShortPath(ms[len(ms)-1].Field)
	if len(ms) == 1 {
		if ms[0].NT == "" && bytes.Equal(menc, enc) {
			k.violate("field-not-encoded", e, cs, where, "changing %s does not change the encoding", ms[0].Path)
		}
		if ms[0].NT != "" && !bytes.Equal(menc, enc) {
			k.violate("not-transmitted-table-too-wide", e, cs, where, "%s is listed as not transmitted but changes the encoding", ms[0].Path)
		}
	}
	if !ms[0].NoRoundTrip && (e.Valid == nil || e.Valid(b.V)) {
		k.checkValue(e, b.V, menc, cs, where, true)
	}
}
