// Package c09: validation and application are deterministic, side-effect free
// and concurrency-safe. (a) sequential purity bundle on every transition of a
// union-alphabet exploration (valid and invalid blocks); (b) controlled
// schedules (engine E3) of 2-3 callers sharing state, block, supplement and both
// hasher pools, explored exhaustively up to a preemption bound with adversarial
// pool choices; (c) a separate free-running pass of the same bodies under the
// race detector.
package c09

import (
	"sort"
	"time"
	"sync/atomic"
	"bytes"
	"encoding/json"
	"fmt"
	"os"
	"os/exec"
	"path/filepath"
	"strings"
	"sync"

	"go.sia.tech/core/consensus"
	rhp2 "go.sia.tech/core/rhp/v2"
	"go.sia.tech/core/types"
	"go.sia.tech/core/vsync"
	"verifmc/chain"
	"verifmc/sched"
	"verifmc/spec"
	"verifmc/vf"
)

func init() {
	vf.Register(&vf.Check{ID: "C09", Level: "model_checking", Run: run, Replay: replay})
	vf.Register(&vf.Check{ID: "C09race", Level: "other", Run: raceBodies})
}

func enc(fn func(e *types.Encoder)) []byte {
	var buf bytes.Buffer
	e := types.NewEncoder(&buf)
	fn(e)
	e.Flush()
	return buf.Bytes()
}

// inputDigest covers every byte a caller passes in: state encoding, block header fields, every transaction with
// all element proofs, and the supplement with all proofs.
func inputDigest(cs consensus.State, b types.Block, bs consensus.V1BlockSupplement) types.Hash256 {
	buf := enc(func(e *types.Encoder) {
		cs.EncodeTo(e)
		types.V1Block(b).EncodeTo(e)
		e.WriteBool(b.V2 != nil)
		if b.V2 != nil {
			e.WriteUint64(b.V2.Height)
			b.V2.Commitment.EncodeTo(e)
			e.WriteUint64(uint64(len(b.V2.Transactions)))
			for _, t := range b.V2.Transactions {
				t.EncodeTo(e)
			}
		}
		bs.EncodeTo(e)
	})
	return spec.H(buf)
}

func revertDigest(ru consensus.RevertUpdate) types.Hash256 {
	buf := enc(func(e *types.Encoder) {
		for _, d := range ru.SiacoinElementDiffs() {
			d.SiacoinElement.EncodeTo(e)
			e.WriteBool(d.Created)
			e.WriteBool(d.Spent)
		}
		for _, d := range ru.SiafundElementDiffs() {
			d.SiafundElement.EncodeTo(e)
			e.WriteBool(d.Created)
			e.WriteBool(d.Spent)
		}
		for _, d := range ru.FileContractElementDiffs() {
			d.FileContractElement.EncodeTo(e)
			e.WriteBool(d.Created)
			e.WriteBool(d.Resolved)
			e.WriteBool(d.Valid)
			if d.Revision != nil {
				d.Revision.EncodeTo(e)
			}
		}
		for _, d := range ru.V2FileContractElementDiffs() {
			d.V2FileContractElement.EncodeTo(e)
			e.WriteBool(d.Created)
			e.WriteBool(d.Resolution != nil)
			if d.Revision != nil {
				d.Revision.EncodeTo(e)
			}
		}
		ru.ChainIndexElement().EncodeTo(e)
		ru.ForEachTreeNode(func(r, c uint64, h types.Hash256) { e.WriteUint64(r); e.WriteUint64(c); h.EncodeTo(e) })
	})
	return spec.H(buf)
}

func decodeCopy(b types.Block, bs consensus.V1BlockSupplement) (types.Block, consensus.V1BlockSupplement, error) {
	var b2 types.Block
	d := types.NewBufDecoder(enc(types.V2Block(b).EncodeTo))
	(*types.V2Block)(&b2).DecodeFrom(d)
	if d.Err() != nil {
		return b2, bs, d.Err()
	}
	var bs2 consensus.V1BlockSupplement
	d = types.NewBufDecoder(enc(bs.EncodeTo))
	bs2.DecodeFrom(d)
	return b2, bs2, d.Err()
}

type result struct {
	Verdict  bool
	State    []byte
	Update   types.Hash256
	Revert   types.Hash256
	Panicked any
}

// sequential purity bundle; returns a description of the first failure.
// watchWriter runs fn on every flush of the encoder above it.
type watchWriter struct{ fn func() }

func (w watchWriter) Write(p []byte) (int, error) { w.fn(); return len(p), nil }

var (
	watched       sync.Map // transaction already observed (per encoder)
	watchedFlush  atomic.Int64
	watchedTxns   atomic.Int64
	watchedEncode atomic.Int64
)

// intactWhileEncoded: the encoders behind IDs, signature hashes and the wire form must not touch their input even
// TEMPORARILY (clear a field, encode, restore): another caller reading the same transaction in that window sees a
// different transaction. Every transaction of b is encoded (semantic form = the ID preimage, and full form) through an
// Encoder whose underlying writer re-digests the transaction on every flush; 128 paddings (0, 8, ... 1016 bytes written
// first) move the flush points of the 1024-byte encoder buffer across the whole encoding, so that every window of 8 or
// more encoded bytes is observed. Each distinct transaction is observed once per run.
func intactWhileEncoded(b types.Block) (sig, desc string) {
	observe := func(key, name string, digest func() types.Hash256, encode func(e *types.Encoder)) (string, string) {
		if _, dup := watched.LoadOrStore(name+"|"+key, true); dup {
			return "", ""
		}
		watchedTxns.Add(1)
		d0 := digest()
		for pad := 0; pad < 1024; pad += 8 {
			bad := false
			e := types.NewEncoder(watchWriter{func() {
				watchedFlush.Add(1)
				if digest() != d0 {
					bad = true
				}
			}})
			e.Write(make([]byte, pad))
			encode(e)
			e.Flush()
			watchedEncode.Add(1)
			if bad {
				return "inputs-modified|during " + name, fmt.Sprintf("the transaction differed from its original while %s was running (observed from the writer under the encoder, %d bytes written before it)", name, pad)
			}
			if digest() != d0 {
				return "inputs-modified|" + name, "the transaction was modified by " + name
			}
		}
		return "", ""
	}
	for i := range b.Transactions {
		t := &b.Transactions[i]
		digest := func() types.Hash256 { return spec.H(enc(t.EncodeTo)) }
		if s, d := observe(t.ID().String()+fmt.Sprint(len(t.Signatures)), "Transaction.EncodeTo", digest, func(e *types.Encoder) { t.EncodeTo(e) }); s != "" {
			return s, d
		}
	}
	if b.V2 != nil {
		for i := range b.V2.Transactions {
			t := &b.V2.Transactions[i]
			digest := func() types.Hash256 { return spec.H(enc(t.EncodeTo)) }
			key := digest().String()
			if s, d := observe(key, "V2TransactionSemantics.EncodeTo (the transaction ID preimage)", digest, func(e *types.Encoder) { (*types.V2TransactionSemantics)(t).EncodeTo(e) }); s != "" {
				return s, d
			}
			if s, d := observe(key, "V2Transaction.EncodeTo", digest, func(e *types.Encoder) { t.EncodeTo(e) }); s != "" {
				return s, d
			}
		}
	}
	return "", ""
}

func purity(w *chain.World, b types.Block, bs consensus.V1BlockSupplement, txFaultOnly bool) (sig, desc string) {
	cs := w.CS
	ts := w.TargetTimestamp()
	d0 := inputDigest(cs, b, bs)
	if !txFaultOnly {
		if s, d := intactWhileEncoded(b); s != "" {
			return s, d
		}
	}
	same := func(stage string) (string, string) {
		if inputDigest(cs, b, bs) != d0 {
			return "inputs-modified|" + stage, "the state, block, supplement or an element proof passed in was modified by " + stage
		}
		return "", ""
	}
	var v1, v2 error
	if p, _ := vf.Try(func() { v1 = consensus.ValidateBlock(cs, b, bs) }); p != nil {
		return "", "" // panics are C10's business
	}
	if s, d := same("ValidateBlock"); s != "" {
		return s, d
	}
	if p, _ := vf.Try(func() { v2 = consensus.ValidateBlock(cs, b, bs) }); p != nil || (v1 == nil) != (v2 == nil) {
		return "verdict-not-repeatable", fmt.Sprintf("second ValidateBlock call on the same inputs gave a different verdict (%v vs %v)", v1, v2)
	}
	// transaction-by-transaction against the evolving MidState
	var txErr error
	vf.Try(func() {
		ms := consensus.NewMidState(cs)
		for i, t := range b.Transactions {
			if i >= len(bs.Transactions) {
				txErr = fmt.Errorf("supplement too short")
				return
			}
			if txErr = consensus.ValidateTransaction(ms, t, bs.Transactions[i]); txErr != nil {
				return
			}
			ms.ApplyTransaction(t, bs.Transactions[i])
		}
		for _, t := range b.V2Transactions() {
			if txErr = consensus.ValidateV2Transaction(ms, t); txErr != nil {
				return
			}
			ms.ApplyV2Transaction(t)
		}
	})
	if s, d := same("per-transaction validation"); s != "" {
		return s, d
	}
	if v1 == nil && txErr != nil {
		return "midstate-disagrees|block-valid-tx-invalid", fmt.Sprintf("block valid but transaction-by-transaction validation failed: %v", txErr)
	}
	if v1 != nil && txFaultOnly && txErr == nil {
		return "midstate-disagrees|block-invalid-txs-valid", fmt.Sprintf("block rejected (%v) although it is correctly sealed and every transaction validates one at a time", v1)
	}
	// decoded copy
	b2, bs2, derr := decodeCopy(b, bs)
	if derr != nil {
		if v1 == nil {
			return "decode-copy|error", "a valid block does not survive encode/decode: " + derr.Error()
		}
		return "", ""
	}
	var v3 error
	vf.Try(func() { v3 = consensus.ValidateBlock(cs, b2, bs2) })
	if (v1 == nil) != (v3 == nil) {
		return "decode-copy|verdict", fmt.Sprintf("decode(encode(block)) has a different verdict (%v vs %v)", v1, v3)
	}
	if v1 != nil {
		return "", ""
	}
	cs1, au1 := consensus.ApplyBlock(cs, b, bs, ts)
	if s, d := same("ApplyBlock"); s != "" {
		return s, d
	}
	cs2, au2 := consensus.ApplyBlock(cs, b, bs, ts)
	if !bytes.Equal(chain.StateBytes(cs1), chain.StateBytes(cs2)) || chain.UpdateDigest(au1) != chain.UpdateDigest(au2) {
		return "apply-not-repeatable", "second ApplyBlock call on the same inputs produced a different state or update"
	}
	cs3, au3 := consensus.ApplyBlock(cs, b2, bs2, ts)
	if !bytes.Equal(chain.StateBytes(cs1), chain.StateBytes(cs3)) || chain.UpdateDigest(au1) != chain.UpdateDigest(au3) {
		return "decode-copy|apply", "ApplyBlock on decode(encode(block)) produced a different state or update"
	}
	ru1 := consensus.RevertBlock(cs, b, bs)
	if s, d := same("RevertBlock"); s != "" {
		return s, d
	}
	ru2 := consensus.RevertBlock(cs, b, bs)
	if revertDigest(ru1) != revertDigest(ru2) {
		return "revert-not-repeatable", "second RevertBlock call produced different contents"
	}
	// an element refreshed through UpdateElementProof must not share memory with the update it was refreshed from (a
	// subscriber keeps both): refresh a copy of every tracked element, scribble over the refreshed proof, and require
	// the update - and the revert update - to be unchanged
	{
		dA, dR := chain.UpdateDigest(au1), revertDigest(ru1)
		scribble := func(se *types.StateElement, upd func(*types.StateElement)) {
			vf.Try(func() {
				upd(se)
				for i := range se.MerkleProof {
					se.MerkleProof[i][2] ^= 0xFF
				}
			})
		}
		for _, e := range w.Store.SC {
			ec := e.Copy()
			scribble(&ec.StateElement, au1.UpdateElementProof)
		}
		for _, e := range w.Store.SF {
			ec := e.Copy()
			scribble(&ec.StateElement, au1.UpdateElementProof)
		}
		for _, e := range w.Store.FC {
			ec := e.Copy()
			scribble(&ec.StateElement, au1.UpdateElementProof)
		}
		for _, e := range w.Store.V2FC {
			ec := e.Copy()
			scribble(&ec.StateElement, au1.UpdateElementProof)
		}
		if chain.UpdateDigest(au1) != dA {
			return "update-aliased-by-refreshed-element|apply", "scribbling over the proof of an element that was refreshed with ApplyUpdate.UpdateElementProof changed the ApplyUpdate itself (shared memory)"
		}
		// the same on the revert side, with the elements as the block left them
		for _, d := range au1.SiacoinElementDiffs() {
			ec := d.SiacoinElement.Copy()
			scribble(&ec.StateElement, ru1.UpdateElementProof)
		}
		for _, d := range au1.SiafundElementDiffs() {
			ec := d.SiafundElement.Copy()
			scribble(&ec.StateElement, ru1.UpdateElementProof)
		}
		for _, d := range au1.FileContractElementDiffs() {
			ec := d.FileContractElement.Copy()
			scribble(&ec.StateElement, ru1.UpdateElementProof)
		}
		for _, d := range au1.V2FileContractElementDiffs() {
			ec := d.V2FileContractElement.Copy()
			scribble(&ec.StateElement, ru1.UpdateElementProof)
		}
		if revertDigest(ru1) != dR {
			return "update-aliased-by-refreshed-element|revert", "scribbling over the proof of an element that was refreshed with RevertUpdate.UpdateElementProof changed the RevertUpdate itself (shared memory)"
		}
	}
	// updates must not alias caller memory: scribbling over the update's proofs must not move the input digest
	for _, d := range au1.SiacoinElementDiffs() {
		for i := range d.SiacoinElement.StateElement.MerkleProof {
			d.SiacoinElement.StateElement.MerkleProof[i][0] ^= 0xFF
		}
	}
	for _, d := range au1.V2FileContractElementDiffs() {
		for i := range d.V2FileContractElement.StateElement.MerkleProof {
			d.V2FileContractElement.StateElement.MerkleProof[i][0] ^= 0xFF
		}
	}
	for _, d := range au1.FileContractElementDiffs() {
		for i := range d.FileContractElement.StateElement.MerkleProof {
			d.FileContractElement.StateElement.MerkleProof[i][0] ^= 0xFF
		}
	}
	for _, d := range au1.SiafundElementDiffs() {
		for i := range d.SiafundElement.StateElement.MerkleProof {
			d.SiafundElement.StateElement.MerkleProof[i][0] ^= 0xFF
		}
	}
	if s, d := same("mutating the returned ApplyUpdate (aliasing)"); s != "" {
		return "update-aliases-inputs", d
	}
	// copies share no memory: element copies ("Copy returns a deep copy of the element"). Every flip is undone right
	// away (if the copy does share memory the flip lands in live data of this harness).
	{
		dA := chain.UpdateDigest(au1)
		flipFC := func(e types.FileContractElement) {
			cp := e.Copy()
			for i := range cp.FileContract.ValidProofOutputs {
				cp.FileContract.ValidProofOutputs[i].Value.Lo ^= 1
			}
			for i := range cp.FileContract.MissedProofOutputs {
				cp.FileContract.MissedProofOutputs[i].Address[0] ^= 0xFF
			}
		}
		bad := ""
		for _, d := range au1.FileContractElementDiffs() {
			flipFC(d.FileContractElement)
			if chain.UpdateDigest(au1) != dA {
				bad = "mutating the proof outputs of FileContractElement.Copy() changed the element it was copied from (the update's diff)"
			}
			flipFC(d.FileContractElement)
		}
		for i := range bs.ExpiringFileContracts {
			flipFC(bs.ExpiringFileContracts[i])
			if s, d := same("mutating FileContractElement.Copy()"); s != "" {
				bad = d
			}
			flipFC(bs.ExpiringFileContracts[i])
		}
		for i := range bs.Transactions {
			for j := range bs.Transactions[i].RevisedFileContracts {
				flipFC(bs.Transactions[i].RevisedFileContracts[j])
				if s, d := same("mutating FileContractElement.Copy()"); s != "" {
					bad = d
				}
				flipFC(bs.Transactions[i].RevisedFileContracts[j])
			}
		}
		if bad != "" {
			return "copy-aliases-original|FileContractElement", bad
		}
		ae := types.AttestationElement{Attestation: types.Attestation{Key: "k", Value: []byte{1, 2, 3}}}
		cp := ae.Copy()
		cp.Attestation.Value[0] ^= 0xFF
		if ae.Attestation.Value[0] != 1 {
			return "copy-aliases-original|AttestationElement", "mutating the value of AttestationElement.Copy() changed the original"
		}
	}
	// copies share no memory
	for ti := range b.V2Transactions() {
		t := &b.V2.Transactions[ti]
		c := t.DeepCopy()
		scribbleTxn(&c)
		if s, d := same("mutating V2Transaction.DeepCopy()"); s != "" {
			return "deepcopy-aliases-original", d
		}
		for i := range t.SiacoinInputs {
			cp := t.SiacoinInputs[i].Parent.Copy()
			for j := range cp.StateElement.MerkleProof {
				cp.StateElement.MerkleProof[j][3] ^= 0xFF
			}
		}
		if s, d := same("mutating SiacoinElement.Copy()"); s != "" {
			return "copy-aliases-original", d
		}
	}
	return "", ""
}

func scribbleTxn(t *types.V2Transaction) {
	sp := func(p []types.Hash256) {
		for i := range p {
			p[i][1] ^= 0xFF
		}
	}
	for i := range t.SiacoinInputs {
		sp(t.SiacoinInputs[i].Parent.StateElement.MerkleProof)
		for j := range t.SiacoinInputs[i].SatisfiedPolicy.Signatures {
			t.SiacoinInputs[i].SatisfiedPolicy.Signatures[j][0] ^= 0xFF
		}
		for j := range t.SiacoinInputs[i].SatisfiedPolicy.Preimages {
			t.SiacoinInputs[i].SatisfiedPolicy.Preimages[j][0] ^= 0xFF
		}
	}
	for i := range t.SiacoinOutputs {
		t.SiacoinOutputs[i].Value.Lo ^= 1
	}
	for i := range t.SiafundInputs {
		sp(t.SiafundInputs[i].Parent.StateElement.MerkleProof)
		for j := range t.SiafundInputs[i].SatisfiedPolicy.Signatures {
			t.SiafundInputs[i].SatisfiedPolicy.Signatures[j][0] ^= 0xFF
		}
	}
	for i := range t.SiafundOutputs {
		t.SiafundOutputs[i].Value ^= 1
	}
	for i := range t.FileContracts {
		t.FileContracts[i].Filesize ^= 1
	}
	for i := range t.FileContractRevisions {
		sp(t.FileContractRevisions[i].Parent.StateElement.MerkleProof)
		t.FileContractRevisions[i].Revision.Filesize ^= 1
	}
	for i := range t.FileContractResolutions {
		sp(t.FileContractResolutions[i].Parent.StateElement.MerkleProof)
		if p, ok := t.FileContractResolutions[i].Resolution.(*types.V2StorageProof); ok {
			sp(p.ProofIndex.StateElement.MerkleProof)
			sp(p.Proof)
			p.Leaf[0] ^= 0xFF
		}
	}
	for i := range t.Attestations {
		for j := range t.Attestations[i].Value {
			t.Attestations[i].Value[j] ^= 0xFF
		}
	}
	for i := range t.ArbitraryData {
		t.ArbitraryData[i] ^= 0xFF
	}
	// everything reachable through a pointer, an interface or a nested slice
	for i := range t.FileContractResolutions {
		if r, ok := t.FileContractResolutions[i].Resolution.(*types.V2FileContractRenewal); ok && r != nil {
			r.NewContract.Filesize ^= 1
			r.FinalRenterOutput.Value.Lo ^= 1
			r.RenterSignature[0] ^= 0xFF
		}
	}
	if t.NewFoundationAddress != nil {
		(*t.NewFoundationAddress)[0] ^= 0xFF
	}
	var pol func(p types.SpendPolicy)
	pol = func(p types.SpendPolicy) {
		switch pt := p.Type.(type) {
		case types.PolicyTypeThreshold:
			for i := range pt.Of {
				pol(pt.Of[i])
				pt.Of[i] = types.PolicyAbove(424242)
			}
		case types.PolicyTypeUnlockConditions:
			for i := range pt.PublicKeys {
				for j := range pt.PublicKeys[i].Key {
					pt.PublicKeys[i].Key[j] ^= 0xFF
				}
				pt.PublicKeys[i].Algorithm[0] ^= 0xFF
			}
		}
	}
	for i := range t.SiacoinInputs {
		pol(t.SiacoinInputs[i].SatisfiedPolicy.Policy)
	}
	for i := range t.SiafundInputs {
		pol(t.SiafundInputs[i].SatisfiedPolicy.Policy)
	}
}

func menu(w *chain.World) []chain.Action {
	return []chain.Action{
		chain.V1Pay(true, 2), chain.V1Chain(), chain.V1SF(true), chain.V1Form(1, 2, 100), chain.V1Revise("pay"), chain.V1Proof(false), chain.V1ProofFee(),
		chain.V2Pay(chain.AddrV2, true, 2), chain.V2Pay(chain.AddrThresh, true, 2), chain.V2Chain(chain.AddrV2), chain.V2SF(true), chain.V2Form(1, 2, 100), chain.V2Form(0, 1, 10), chain.V2Revise("pay"), chain.V2Renew("partial"), chain.V2Proof(), chain.V2Expire(), chain.V2Attest(), chain.V2Foundation(false), chain.V2Pay(chain.AddrV1, false, 1),
		chain.MixedChain(), // a v2 transaction spending what a v1 transaction of the same block created
		// same-block interactions (several MidState code paths per element): the purity bundle incl. the decode(encode()) copy runs on them too
		chain.Seq("v1revise-twice", chain.V1Revise("pay"), chain.V1Revise("grow")), chain.Seq("v1revise+proof", chain.V1Revise("pay"), chain.V1Proof(false)), chain.V1FormRevise(true),
		chain.Seq("v2revise-twice", chain.V2Revise("pay"), chain.V2Revise("keys")), chain.Seq("v2form+revise", chain.V2Form(1, 2, 100), chain.V2Revise("pay")), chain.Seq("v2revise+renew", chain.V2Revise("pay"), chain.V2Renew("none")),
	}
}

// ---------------- (b) controlled schedules ----------------

type shape struct {
	name string
	w    *chain.World // state BEFORE the block
	b    types.Block
	bs   consensus.V1BlockSupplement
}

// buildShapes produces three block shapes on real states.
func buildShapes(c *vf.Ctx, keys *chain.Keys) []shape {
	var out []shape
	mk := func(net, name string, prefix [][]chain.Action, final []chain.Action) {
		w, p := chain.NewWorld(chain.Spec(net), keys, chain.DefaultAlloc(keys), chain.Options{})
		if p != nil {
			c.HarnessError("shape genesis: %v", p)
			return
		}
		step := func(acts []chain.Action) (types.Block, consensus.V1BlockSupplement, bool) {
			bc := w.NewBlockCtx()
			for _, a := range acts {
				if !a.Do(bc) {
					c.HarnessError("shape %s: action %s not applicable at height %d", name, a.Name, w.ChildHeight())
					return types.Block{}, consensus.V1BlockSupplement{}, false
				}
			}
			b, bs := w.BuildBlock(bc.V1, bc.V2, chain.BlockOpts{})
			return b, bs, true
		}
		for _, acts := range prefix {
			b, bs, ok := step(acts)
			if !ok {
				return
			}
			if err, p := w.Apply(b, bs); err != nil || p != nil {
				c.HarnessError("shape %s: prefix block rejected: %v %v", name, err, p)
				return
			}
		}
		b, bs, ok := step(final)
		if !ok {
			return
		}
		if err := w.Validate(b, bs); err != nil {
			c.HarnessError("shape %s: final block rejected: %v", name, err)
			return
		}
		out = append(out, shape{name, w, b, bs})
	}
	mk("v1-eras", "v1 block with contract revision, proof and payment", [][]chain.Action{{chain.V1Form(2, 2, 100), chain.V1Form(3, 2, 10)}, nil},
		[]chain.Action{chain.V1Proof(false), chain.V1Revise("pay"), chain.V1Pay(true, 2)})
	mk("v2-only", "v2 block with input, revision and resolution", [][]chain.Action{{chain.V2Form(1, 2, 100), chain.V2Form(3, 2, 10)}, nil, nil},
		[]chain.Action{chain.V2Proof(), chain.V2Revise("pay"), chain.V2Pay(chain.AddrV2, true, 2)})
	mk("mixed", "mixed v1+v2 block", [][]chain.Action{nil, nil, nil, {chain.V2Form(2, 2, 100)}},
		[]chain.Action{chain.V1Pay(true, 2), chain.V2Revise("pay"), chain.V2SF(true)})
	mk("v2-only", "v2 block spending a threshold-policy output and a legacy unlock-conditions output", nil,
		[]chain.Action{chain.V2Pay(chain.AddrThresh, true, 2), chain.V2Pay(chain.AddrV1, false, 1)})
	mk("v2-only", "v2 block with a contract renewal, an attestation and a payment", [][]chain.Action{{chain.V2Form(4, 2, 100)}, nil},
		[]chain.Action{chain.V2Renew("partial"), chain.V2Attest(), chain.V2Pay(chain.AddrV2, true, 2)})
	return out
}

type caller struct {
	name string
	run  func(s shape) []byte // returns a canonical encoding of the result
}

func callers() map[string]caller {
	return map[string]caller{
		"ValidateBlock": {"ValidateBlock", func(s shape) []byte {
			err := consensus.ValidateBlock(s.w.CS, s.b, s.bs)
			return []byte(fmt.Sprint(err == nil))
		}},
		"ApplyBlock": {"ApplyBlock", func(s shape) []byte {
			cs, au := consensus.ApplyBlock(s.w.CS, s.b, s.bs, s.w.TargetTimestamp())
			d := chain.UpdateDigest(au)
			return append(chain.StateBytes(cs), d[:]...)
		}},
		"RevertBlock": {"RevertBlock", func(s shape) []byte {
			ru := consensus.RevertBlock(s.w.CS, s.b, s.bs)
			d := revertDigest(ru)
			return d[:]
		}},
		"Multiproof.EncodeTo": {"Multiproof.EncodeTo", func(s shape) []byte {
			return enc(types.V2TransactionsMultiproof(s.b.V2Transactions()).EncodeTo)
		}},
		"IDs+InputSigHash": {"IDs+InputSigHash", func(s shape) []byte {
			var out []byte
			for i := range s.b.Transactions {
				id := s.b.Transactions[i].ID()
				out = append(out, id[:]...)
			}
			for i := range s.b.V2Transactions() {
				t := &s.b.V2.Transactions[i]
				id := t.ID()
				sh := s.w.CS.InputSigHash(*t)
				out = append(append(out, id[:]...), sh[:]...)
			}
			bid := s.b.ID()
			return append(out, bid[:]...)
		}},
		"ValidateTransactions": {"ValidateTransactions", func(s shape) []byte {
			ms := consensus.NewMidState(s.w.CS)
			ok := true
			for i, t := range s.b.Transactions {
				ok = ok && consensus.ValidateTransaction(ms, t, s.bs.Transactions[i]) == nil
				ms.ApplyTransaction(t, s.bs.Transactions[i])
			}
			for _, t := range s.b.V2Transactions() {
				ok = ok && consensus.ValidateV2Transaction(ms, t) == nil
				ms.ApplyV2Transaction(t)
			}
			return []byte(fmt.Sprint(ok))
		}},
	}
}

var harnesses = [][]string{
	{"ValidateBlock", "ApplyBlock"},
	{"ApplyBlock", "ApplyBlock"},
	{"ValidateBlock", "RevertBlock", "Multiproof.EncodeTo"},
	{"IDs+InputSigHash", "ValidateTransactions"},
	{"IDs+InputSigHash", "IDs+InputSigHash", "ValidateBlock"},
}

type schedCase struct {
	Shape   string   `json:"block_shape"`
	Callers []string `json:"callers"`
	Choices []int    `json:"schedule"`
	Seed    int64    `json:"seed"`
}

// handoffs counts pooled objects that were returned by one caller and handed to ANOTHER caller (evidence that the
// explored schedules really make callers share pool objects; a run without any is vacuous for the pool hazard).
var handoffs, handoffExecs atomic.Int64

func install(e *sched.Exec) {
	vsync.DrainAll()
	lastPut := map[any]int{}
	seen := false
	vsync.SetHooks(&vsync.Hooks{
		OnPut: func(p *vsync.Pool, x any) { lastPut[x] = e.Current() },
		OnGet: func(p *vsync.Pool, x any, fresh bool) {
			if by, ok := lastPut[x]; ok && !fresh && by != e.Current() {
				handoffs.Add(1)
				if !seen {
					seen = true
					handoffExecs.Add(1)
				}
			}
		},
		BeforeGet: func(p *vsync.Pool, n int) int {
			e.Yield("pool.Get")
			// option 0: most recently returned object (or fresh when empty); other options: each other pooled object, then fresh
			c := e.Choose(n+1, "pool-object")
			switch {
			case n == 0:
				return -1
			case c == 0:
				return n - 1
			case c == n:
				return -1
			default:
				return c - 1
			}
		},
		// Scheduling points: before every Get (orders all pool operations) and after every Put (the window in
		// which a hasher that was returned too early would be handed to another caller while still in use).
		AfterPut: func(p *vsync.Pool) { e.Yield("after pool.Put") },
	})
}

func schedules(c *vf.Ctx, shapes []shape) {
	cl := callers()
	maxPre := vf.Pick(c, 1, 2)
	for _, s := range shapes {
		// sequential references (no hooks)
		vsync.SetHooks(nil)
		ref := map[string][]byte{}
		d0 := inputDigest(s.w.CS, s.b, s.bs)
		broken := false
		// two sequential rounds: the second must reproduce the first and the inputs must not move
		for round := 0; round < 2 && !broken; round++ {
			for _, name := range []string{"ValidateBlock", "ApplyBlock", "RevertBlock", "Multiproof.EncodeTo", "IDs+InputSigHash", "ValidateTransactions"} {
				var out []byte
				if p, st := vf.Try(func() { out = cl[name].run(s) }); p != nil {
					c.Violate("C09|sequential|panic|"+name, fmt.Sprintf("[%s] %s panicked when called sequentially on inputs that earlier calls had (only) read: %v\n%s", s.name, name, p, st), schedCase{Shape: s.name, Callers: []string{name}, Seed: c.Seed})
					broken = true
					break
				}
				if round == 1 && !bytes.Equal(out, ref[name]) {
					c.Violate("C09|sequential|result-differs|"+name, fmt.Sprintf("[%s] second sequential call of %s on the same inputs gave a different result", s.name, name), schedCase{Shape: s.name, Callers: []string{name}, Seed: c.Seed})
					broken = true
				}
				ref[name] = out
				if inputDigest(s.w.CS, s.b, s.bs) != d0 {
					c.Violate("C09|sequential|inputs-modified|"+name, fmt.Sprintf("[%s] %s modified the shared state/block/supplement/proofs", s.name, name), schedCase{Shape: s.name, Callers: []string{name}, Seed: c.Seed})
					broken = true
					break
				}
			}
		}
		if broken {
			continue
		}
		for _, h := range harnesses {
			if c.Expired() {
				return
			}
			pre, dat := maxPre, 1
			if !(h[0] == "ValidateBlock" && h[1] == "ApplyBlock") || strings.Contains(s.name, "renewal") {
				pre = 1 // the second preemption (thorough) is spent on the validate/apply pair of the first four shapes; measured: ~250k executions per shape
			}
			if len(h) > 2 {
				pre = vf.Pick(c, 1, 1)
				dat = vf.Pick(c, 0, 1)
			}
			results := make([][]byte, len(h))
			outcomes := map[string]bool{}
			x := &sched.Explorer{MaxPreempt: pre, MaxData: dat, Install: install,
				Stop: c.Expired,
				Bodies: func() []func() {
					bodies := make([]func(), len(h))
					for i, name := range h {
						i, f := i, cl[name]
						results[i] = nil
						bodies[i] = func() { results[i] = f.run(s) }
					}
					return bodies
				},
			}
			x.Check = func(e *sched.Exec) bool {
				vsync.SetHooks(nil)
				c.Count("evaluations", 1)
				c.Count("transitions", int64(len(e.Points)))
				var choices []int
				for _, p := range e.Points {
					choices = append(choices, p.Chosen)
				}
				sc := schedCase{Shape: s.name, Callers: h, Choices: choices, Seed: c.Seed}
				if e.Panic != nil {
					c.Violate("C09|schedule|panic|"+strings.Join(h, "+"), fmt.Sprintf("[%s] panic under a controlled schedule: %v\n%s", s.name, e.Panic, e.PanicStack), sc)
					return false
				}
				key := ""
				for i, name := range h {
					if !bytes.Equal(results[i], ref[name]) {
						c.Violate("C09|schedule|result-differs|"+name, fmt.Sprintf("[%s] callers %v: result of %s under schedule %v differs from its sequential result", s.name, h, name, choices), sc)
						return false
					}
					key += string(results[i][:min(len(results[i]), 8)])
				}
				outcomes[key] = true
				if inputDigest(s.w.CS, s.b, s.bs) != d0 {
					c.Violate("C09|schedule|inputs-modified|"+strings.Join(h, "+"), fmt.Sprintf("[%s] shared inputs modified under schedule %v", s.name, choices), sc)
					return false
				}
				return true
			}
			x.Explore()
			vsync.SetHooks(nil)
			c.Count("schedules_explored", int64(x.Executions))
			c.Count("states", int64(x.Executions))
			c.Distinct(s.name, strings.Join(h, "+"), x.Executions, x.MaxPoints)
			c.Set("schedules/"+s.name+"/"+strings.Join(h, "+"), map[string]any{"executions": x.Executions, "max_points_per_execution": x.MaxPoints, "preemption_bound": pre, "pool_choice_bound": dat, "distinct_global_outcomes": len(outcomes)})
			if len(outcomes) > 1 {
				c.Violate("C09|schedule|nondeterministic-outcome", fmt.Sprintf("[%s] callers %v produced %d distinct global outcomes", s.name, h, len(outcomes)), schedCase{Shape: s.name, Callers: h, Seed: c.Seed})
			}
		}
	}
}

// ---------------- (c) free-running race pass ----------------

// raceBodies is executed by the -race binary (vcheck-race C09race): the same bodies, free-running.
func raceBodies(c *vf.Ctx) {
	os.Setenv("VERIF_NO_EVIDENCE", "1")
	keys := chain.NewKeys(c.Seed)
	shapes := buildShapes(c, keys)
	cl := callers()
	iters := vf.Pick(c, 40, 200)
	var wg sync.WaitGroup
	for _, s := range shapes {
		for g := 0; g < 8; g++ {
			wg.Add(1)
			go func(g int) {
				defer wg.Done()
				names := []string{"ValidateBlock", "ApplyBlock", "RevertBlock", "Multiproof.EncodeTo", "IDs+InputSigHash", "ValidateTransactions"}
				for i := 0; i < iters; i++ {
					cl[names[(g+i)%len(names)]].run(s)
					c.Count("evaluations", 1)
				}
			}(g)
		}
		wg.Wait()
	}
	// sector hashing fan-out
	var sector [rhp2.SectorSize]byte
	for i := range sector {
		sector[i] = byte(i * 7)
	}
	for g := 0; g < 4; g++ {
		wg.Add(1)
		go func() {
			defer wg.Done()
			for i := 0; i < 3; i++ {
				_ = rhp2.SectorRoot(&sector)
				_, _ = rhp2.ReaderRoot(bytes.NewReader(sector[:1<<16]))
				c.Count("evaluations", 1)
			}
		}()
	}
	wg.Wait()
	c.Set("explanation", "free-running race-detector pass of the C09 harness bodies")
	fmt.Println("C09race done")
}

func racePass(c *vf.Ctx) {
	bin := filepath.Join(os.Getenv("VERIF_BUILD"), "vcheck-race")
	if _, err := os.Stat(bin); err != nil {
		c.HarnessError("race binary missing: %v", err)
		return
	}
	cmd := exec.Command(bin, "C09race", c.Tier)
	cmd.Env = append(os.Environ(), "VERIF_NO_EVIDENCE=1", "GORACE=halt_on_error=0 exitcode=66", fmt.Sprintf("VERIF_SEED=%d", c.Seed))
	out, err := cmd.CombinedOutput()
	s := string(out)
	c.Count("race_pass_runs", 1)
	if strings.Contains(s, "WARNING: DATA RACE") {
		// signature from the first reported function pair
		first := s[strings.Index(s, "WARNING: DATA RACE"):]
		if len(first) > 1500 {
			first = first[:1500]
		}
		c.Violate("C09|race-detector|data-race", "race detector report in the free-running pass:\n"+first, map[string]any{"cmd": bin + " C09race"})
		return
	}
	if err != nil && !strings.Contains(s, "C09race done") {
		c.HarnessError("race pass failed: %v\n%s", err, s[max(0, len(s)-800):])
	}
}

func run(c *vf.Ctx) {
	c.Set("rule", "(a) purity bundle on every transition of a union-alphabet DFS and on invalid variants of every accepted block (duplicated last transaction, wrong payout): input digests (state, block, every proof, supplement) identical before/after ValidateBlock, ApplyBlock, RevertBlock and per-transaction MidState validation; repeated calls and a decode(encode()) copy give the same verdict / state bytes / update digest; per-transaction verdict == block verdict; returned updates and Copy()/DeepCopy() results share no memory with the inputs; (b) all interleavings of 2-3 callers on shared inputs at sync.Pool Get/Put scheduling points (before and after each) up to a preemption bound, with adversarial choice of the pooled object; (c) free-running -race pass")
	keys := chain.NewKeys(c.Seed)
	tStart := time.Now()
	// (a)
	type nv struct {
		net  string
		D, K int
	}
	var nvs []nv
	for _, n := range []string{"mixed", "v1-eras", "v2-only"} {
		if c.Quick() {
			nvs = append(nvs, nv{n, 2, 1})
		} else {
			// thorough: all ordered pairs per block with two non-empty blocks; on the mixed network also three non-empty
			// single-action blocks
			nvs = append(nvs, nv{n, 2, 2})
			if n == "mixed" {
				nvs = append(nvs, nv{n, 3, 1})
			}
		}
	}
	for _, v := range nvs {
		n := v.net
		if c.Expired() {
			break
		}
		sp := chain.Spec(n)
		m := &chain.Model{Name: "union", Spec: sp, Menu: menu, Opt: chain.Options{CheckLedger: true},
			H: vf.Pick[uint64](c, 7, 9), D: v.D, K: v.K, R: 0}
		if sp.Name == "mixed" {
			m.SkipStart = 3
			m.H += 3
		}
		m.OnTransition = func(x *chain.Explorer, prev, w *chain.World, path []string) {
			a := w.Hist[len(w.Hist)-1]
			c.Count("purity_bundles_valid", 1)
			if len(a.BS.ExpiringFileContracts) >= 2 {
				for _, t := range a.B.Transactions {
					if len(t.StorageProofs) > 0 {
						c.Count("blocks_with_a_proof_and_several_expiring_contracts", 1)
						break
					}
				}
			}
			if sig, desc := purity(prev, a.B, a.BS, false); sig != "" {
				x.Violate("purity|"+sig, desc, path)
			}
			// the same block as its miner holds it before it ever went over the wire: a timestamp with a sub-second part.
			// ID, encoding and decoded copy are those of a.B; the state reached must be the same
			{
				sub := a.B
				sub.Timestamp = a.B.Timestamp.Add(700 * time.Millisecond)
				var st consensus.State
				var verr error
				if p, _ := vf.Try(func() {
					if verr = consensus.ValidateBlock(prev.CS, sub, a.BS); verr == nil {
						st, _ = consensus.ApplyBlock(prev.CS, sub, a.BS, prev.TargetTimestamp())
					}
				}); p != nil {
					x.Violate("purity|sub-second-timestamp|panic", fmt.Sprintf("panic on the block with a sub-second timestamp: %v", p), path)
				} else if verr != nil {
					x.Violate("purity|sub-second-timestamp|verdict", fmt.Sprintf("block %v accepted, the same block (same id) with a sub-second part in its timestamp rejected: %v", a.B.ID(), verr), path)
				} else if sub.ID() == a.B.ID() && !bytes.Equal(chain.StateBytes(st), chain.StateBytes(w.CS)) {
					x.Violate("purity|sub-second-timestamp|state", "applying a block whose in-memory timestamp has a sub-second part reaches a different state than applying its decode(encode()) copy (same block id)", path)
				}
				c.Count("sub_second_timestamp_variants", 1)
			}
			// ... and the verdict side of it: a child header stamped between the whole second below the median and the
			// median (the median of an even number of ancestors falls on a half second when the middle two are an odd number
			// of seconds apart - forced here by moving the tip's timestamp by one second) against its encoded form
			{
				st := w.CS
				n := int(st.Index.Height) + 1
				if n > len(st.PrevTimestamps) {
					n = len(st.PrevTimestamps)
				}
				for _, shift := range []time.Duration{0, time.Second} {
					st.PrevTimestamps[0] = w.CS.PrevTimestamps[0].Add(shift)
					ts := append([]time.Time(nil), st.PrevTimestamps[:n]...)
					sort.Slice(ts, func(i, j int) bool { return ts[i].Before(ts[j]) })
					med := ts[n/2]
					if n%2 == 0 {
						med = ts[n/2-1].Add(ts[n/2].Sub(ts[n/2-1]) / 2)
					}
					if med.Nanosecond() == 0 {
						continue
					}
					blk := types.Block{ParentID: st.Index.ID, Timestamp: time.Unix(med.Unix(), 0).Add(700 * time.Millisecond), MinerPayouts: []types.SiacoinOutput{{Value: st.BlockReward(), Address: types.VoidAddress}}}
					chain.Seal(st, &blk)
					hdr := blk.Header()
					enc := hdr
					enc.Timestamp = time.Unix(hdr.Timestamp.Unix(), 0)
					e1, e2 := consensus.ValidateHeader(st, hdr), consensus.ValidateHeader(st, enc)
					if hdr.ID() == enc.ID() && (e1 == nil) != (e2 == nil) {
						x.Violate("purity|sub-second-timestamp|verdict", fmt.Sprintf("a header stamped %v (median of its ancestors %v) and its encoded form (whole seconds, same id) get different verdicts from ValidateHeader: %v vs %v", hdr.Timestamp.UTC(), med.UTC(), e1, e2), path)
					}
					c.Count("sub_second_timestamp_verdict_probes", 1)
					// a time-lock policy after(T): only the whole seconds of T are part of the policy (its address, its
					// encoding, its text form). T in memory with a sub-second part between the whole second and the median
					// against its decoded form - same address, so the same output is being spent - alone and as a threshold branch
					for _, wrap := range []bool{false, true} {
						mem := types.PolicyAfter(time.Unix(med.Unix(), 0).Add(700 * time.Millisecond))
						dec := types.PolicyAfter(time.Unix(med.Unix(), 0))
						if wrap {
							mem, dec = types.PolicyThreshold(1, []types.SpendPolicy{mem}), types.PolicyThreshold(1, []types.SpendPolicy{dec})
						}
						v1, v2 := mem.Verify(st.Index.Height, med, types.Hash256{}, nil, nil), dec.Verify(st.Index.Height, med, types.Hash256{}, nil, nil)
						if mem.Address() == dec.Address() && (v1 == nil) != (v2 == nil) {
							x.Violate("purity|sub-second-timestamp|policy-verdict", fmt.Sprintf("policy after(T) with T = %v held in memory and its encoded form (whole seconds, same address %v) get different verdicts at median timestamp %v: %v vs %v", time.Unix(med.Unix(), 0).Add(700*time.Millisecond).UTC(), dec.Address(), med.UTC(), v1, v2), path)
						}
						c.Count("sub_second_policy_verdict_probes", 1)
					}
				}
			}
			// the same block and supplement with every element carrying the library's "shared memory" mark (Share()):
			// same contents, same verdict, same state
			{
				sb, sbs := chain.ShareAll(a.B, a.BS)
				var st consensus.State
				var verr error
				if p, _ := vf.Try(func() {
					if verr = consensus.ValidateBlock(prev.CS, sb, sbs); verr == nil {
						st, _ = consensus.ApplyBlock(prev.CS, sb, sbs, prev.TargetTimestamp())
					}
					for _, t := range sb.V2Transactions() {
						if e := consensus.ValidateV2Transaction(consensus.NewMidState(prev.CS), t); e != nil && len(sb.V2Transactions()) == 1 && len(sb.Transactions) == 0 {
							verr = e
						}
					}
				}); p != nil {
					x.Violate("purity|shared-elements|panic", fmt.Sprintf("validating / applying the block with its elements marked as shared memory panicked: %v", p), path)
				} else if verr != nil {
					x.Violate("purity|shared-elements|verdict", fmt.Sprintf("block accepted, the same block with its elements marked as shared memory rejected: %v", verr), path)
				} else if !bytes.Equal(chain.StateBytes(st), chain.StateBytes(w.CS)) {
					x.Violate("purity|shared-elements|state", "applying the block with its elements marked as shared memory reaches a different state", path)
				}
				c.Count("shared_element_variants", 1)
			}
			// invalid variants
			if n := len(a.B.V2Transactions()); n > 0 {
				bad := a.B
				v := *a.B.V2
				v.Transactions = append(append([]types.V2Transaction(nil), v.Transactions...), v.Transactions[n-1].DeepCopy())
				bad.V2 = &v
				bad.MinerPayouts = append([]types.SiacoinOutput(nil), a.B.MinerPayouts...)
				bad.MinerPayouts[0].Value, _ = bad.MinerPayouts[0].Value.AddWithOverflow(v.Transactions[n].MinerFee)
				bad.V2.Commitment = prev.CS.Commitment(bad.MinerPayouts[0].Address, bad.Transactions, bad.V2.Transactions)
				chain.Seal(prev.CS, &bad)
				c.Count("purity_bundles_invalid", 1)
				if sig, desc := purity(prev, bad, a.BS, true); sig != "" {
					x.Violate("purity|invalid-block|"+sig, desc, append(append([]string(nil), path...), "variant:duplicate-last-v2-transaction"))
				}
			}
			{
				bad := a.B
				bad.MinerPayouts = append([]types.SiacoinOutput(nil), a.B.MinerPayouts...)
				bad.MinerPayouts[0].Value = bad.MinerPayouts[0].Value.Add(types.NewCurrency64(1))
				if bad.V2 != nil {
					v := *a.B.V2
					bad.V2 = &v
				}
				chain.Seal(prev.CS, &bad)
				c.Count("purity_bundles_invalid", 1)
				if sig, desc := purity(prev, bad, a.BS, false); sig != "" {
					x.Violate("purity|invalid-block|"+sig, desc, append(append([]string(nil), path...), "variant:wrong-payout"))
				}
			}
		}
		if v.D == 2 && sp.Require > 3 {
			// end of a v1 proof window: three contracts expiring in one block, one of them proven in that very block
			// (the supplement's expiring list and the block's proofs meet) - same purity bundle
			me := *m
			me.Name, me.Menu, me.D, me.K, me.H = "expiry", chain.ExpiryMenu, 3, 1, 6
			if sp.Name == "mixed" {
				me.H += 3
			}
			xe := chain.NewExplorer(c, &me, "C09")
			xe.Run()
			xe.Report(n + "/expiry/")
		}
		if v.D == 2 {
			// transaction combinatorics (first: small): every ordered pair of actions merged into ONE transaction, each
			// block with the same purity bundle
			mm := *m
			mm.Name, mm.Menu, mm.D, mm.K = "merged", chain.MergedMenu, 2, 1
			xm := chain.NewExplorer(c, &mm, "C09")
			xm.Run()
			xm.Report(n + "/merged/")
		}
		x := chain.NewExplorer(c, m, "C09")
		x.Run()
		x.Report(fmt.Sprintf("%s/D%dK%d/", n, v.D, v.K))
		if !c.Expired() && v.D == 2 {
			// block combinatorics: one setup block, then every ordered tuple of <= 2 (thorough 3) actions in one block, each with the
			// same purity bundle
			mc := *m
			mc.Name, mc.Menu, mc.D, mc.K, mc.H, mc.StopWhenSpent = "combo", chain.ComboMenu, 2, vf.Pick(c, 2, 3), m.H-1, true
			xc := chain.NewExplorer(c, &mc, "C09")
			xc.Run()
			xc.Report(n + "/combo/")
		}
	}
	c.Set("part_a_wall_s", time.Since(tStart).Seconds())
	// (b)
	tb := time.Now()
	shapes := buildShapes(c, keys)
	schedules(c, shapes)
	c.Set("part_b_wall_s", time.Since(tb).Seconds())
	// (c)
	tc := time.Now()
	racePass(c)
	c.Count("transactions_observed_while_encoded", watchedTxns.Load())
	c.Count("encodings_observed", watchedEncode.Load())
	c.Count("flushes_observed", watchedFlush.Load())
	c.Set("part_c_wall_s", time.Since(tc).Seconds())
	c.Count("pool_objects_handed_from_one_caller_to_another", handoffs.Load())
	c.Count("schedules_with_a_pool_object_shared_between_callers", handoffExecs.Load())
	c.RequireFeature("purity_bundles_valid", "purity_bundles_invalid", "schedules_explored", "race_pass_runs", "pool_objects_handed_from_one_caller_to_another")
	c.Sample(schedCase{Shape: "v2 block with input, revision and resolution", Callers: []string{"ValidateBlock", "ApplyBlock"}, Choices: []int{0, 0, 1, 0, 0, 2}, Seed: c.Seed})
	c.Assume("interleavings are explored at synchronisation operations (sync.Pool Get/Put) under sequential consistency; unsynchronised accesses are delegated to the free-running race-detector pass, which is a detector, not an exhaustive explorer")
}

func replay(c *vf.Ctx, raw json.RawMessage) {
	var sc schedCase
	if err := json.Unmarshal(raw, &sc); err == nil && sc.Shape != "" {
		keys := chain.NewKeys(sc.Seed)
		cl := callers()
		for _, s := range buildShapes(c, keys) {
			if s.name != sc.Shape {
				continue
			}
			vsync.SetHooks(nil)
			ref := map[string][]byte{}
			for name, f := range cl {
				ref[name] = f.run(s)
			}
			for rep := 0; rep < 2; rep++ {
				results := make([][]byte, len(sc.Callers))
				bodies := make([]func(), len(sc.Callers))
				for i, name := range sc.Callers {
					i, f := i, cl[name]
					bodies[i] = func() { results[i] = f.run(s) }
				}
				e := sched.Run(sc.Choices, install, bodies)
				vsync.SetHooks(nil)
				c.Count("evaluations", 1)
				c.Count("states", 1)
				c.Count("transitions", int64(len(e.Points)))
				if e.Panic != nil {
					c.Violate("C09|schedule|panic|"+strings.Join(sc.Callers, "+"), fmt.Sprint(e.Panic), sc)
				}
				for i, name := range sc.Callers {
					if !bytes.Equal(results[i], ref[name]) {
						c.Violate("C09|schedule|result-differs|"+name, "result differs from the sequential reference on replay", sc)
					}
				}
			}
		}
		return
	}
	w := chain.ReplayTraceWorld(c, stripVariant(raw), func(string) func(w *chain.World) []chain.Action { return menu }, "C09", chain.Options{CheckLedger: true})
	if w != nil && len(w.Hist) > 1 {
		a := w.Hist[len(w.Hist)-1]
		prev := *w
		prev.CS = a.PrevCS
		prev.Times = w.Times[:len(w.Times)-1]
		if sig, desc := purity(&prev, a.B, a.BS, false); sig != "" {
			c.Violate("C09|purity|"+sig, desc, raw)
		}
	}
}

func stripVariant(raw json.RawMessage) json.RawMessage {
	var tc chain.TraceCase
	json.Unmarshal(raw, &tc)
	for len(tc.Trace) > 0 && strings.HasPrefix(tc.Trace[len(tc.Trace)-1], "variant:") {
		tc.Trace = tc.Trace[:len(tc.Trace)-1]
	}
	b, _ := json.Marshal(tc)
	return b
}
