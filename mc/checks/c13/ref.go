package c13

// Reference side of C13: everything in this file is written from the property
// statement with math/big and plain integer arithmetic. Nothing here calls the
// functions under test (ApplyHeader, ApplyBlock, ValidateHeader, PoWTarget,
// NonceFactor, medianTimestamp, SufficientlyHeavierThan).

import (
	"bytes"
	"fmt"
	"io"
	"math/big"
	"sort"

	"go.sia.tech/core/consensus"
	"go.sia.tech/core/types"
)

var (
	bigOne = big.NewInt(1)
	maxT   = new(big.Int).Sub(new(big.Int).Lsh(bigOne, 256), bigOne) // 2^256-1
	two255 = new(big.Int).Lsh(bigOne, 255)
)

func bigOf(b [32]byte) *big.Int { return new(big.Int).SetBytes(b[:]) }

func toID(i *big.Int) (id types.BlockID) {
	i.FillBytes(id[:])
	return
}

// wreader reads the 256-bit integer of a consensus.Work through its exported
// binary encoding (32 raw big-endian bytes). selfCheckWork() verifies once per
// run that this agrees with the decimal String() form.
type wreader struct {
	e   *types.Encoder
	buf capture
}

type capture struct{ b []byte }

func (c *capture) Write(p []byte) (int, error) { c.b = append(c.b, p...); return len(p), nil }

func newWreader() *wreader {
	w := &wreader{}
	w.e = types.NewEncoder(io.Discard)
	return w
}

func (r *wreader) bytes(w consensus.Work) (out [32]byte) {
	r.buf.b = r.buf.b[:0]
	r.e.Reset(&r.buf)
	w.EncodeTo(r.e)
	r.e.Flush()
	if len(r.buf.b) != 32 {
		panic(fmt.Sprintf("c13 harness: Work encodes to %d bytes", len(r.buf.b)))
	}
	copy(out[:], r.buf.b)
	return
}

func (r *wreader) big(w consensus.Work) *big.Int { return bigOf(r.bytes(w)) }

// ---------------------------------------------------------------------------
// median-time rule

// median2 returns twice the median of the last <=11 timestamps of path
// (twice, so that the mean of the two middle values of an even count stays an
// exact integer).
func median2(path []int64) int64 {
	k := len(path)
	if k > 11 {
		k = 11
	}
	w := append([]int64(nil), path[len(path)-k:]...)
	sort.Slice(w, func(i, j int) bool { return w[i] < w[j] })
	if k%2 == 1 {
		return 2 * w[k/2]
	}
	return w[k/2-1] + w[k/2]
}

// minAllowed is the smallest whole-second timestamp that is not older than the
// median.
func minAllowed(path []int64) int64 {
	m2 := median2(path)
	if m2 >= 0 {
		return (m2 + 1) / 2
	}
	return m2 / 2 // ceil for negatives (never used: unix times are positive)
}

// ---------------------------------------------------------------------------
// eras

const (
	eraGenesis = iota
	eraPreOakHold
	eraPreOakRetarget
	eraOak
	eraASICReset
	eraV2
	eraFinalCut
	numEras
)

var eraNames = [numEras]string{"genesis", "preoak_hold", "preoak_retarget", "oak", "asic_reset", "v2", "finalcut"}

// eraOf classifies the transition that produces a block at height h.
func eraOf(n *consensus.Network, h uint64) int {
	switch {
	case h == 0:
		return eraGenesis
	case h < n.HardforkV2.AllowHeight && h <= n.HardforkOak.Height:
		if h%500 == 0 {
			return eraPreOakRetarget
		}
		return eraPreOakHold
	case h < n.HardforkV2.AllowHeight && h == n.HardforkASIC.Height:
		return eraASICReset
	case h < n.HardforkV2.AllowHeight:
		return eraOak
	case h < n.HardforkV2.FinalCutHeight:
		return eraV2
	default:
		return eraFinalCut
	}
}

// refTarget is the proof-of-work target a child of s has to meet, derived from
// the state's fields by the era's inverse relation.
func refTarget(s *consensus.State, wr *wreader) (types.BlockID, bool) {
	if s.Index.Height+1 < s.Network.HardforkV2.FinalCutHeight {
		return s.ChildTarget, true
	}
	d := wr.big(s.Difficulty)
	if d.Sign() == 0 {
		return types.BlockID{}, false
	}
	return toID(new(big.Int).Div(maxT, d)), true
}

func refNonceFactor(s *consensus.State) uint64 {
	if s.Index.Height+1 < s.Network.HardforkASIC.Height {
		return 1
	}
	return s.Network.HardforkASIC.NonceFactor
}

func meetsTarget(id, target types.BlockID) bool { return bytes.Compare(id[:], target[:]) <= 0 }

// refValid is the acceptance predicate of the property statement.
func refValid(s *consensus.State, path []int64, bh types.BlockHeader, wr *wreader) (parentOK, tsOK, nonceOK, workOK bool) {
	parentOK = bh.ParentID == s.Index.ID
	tsOK = 2*bh.Timestamp.Unix() >= median2(path)
	nonceOK = bh.Nonce%refNonceFactor(s) == 0
	if t, ok := refTarget(s, wr); ok {
		workOK = meetsTarget(bh.ID(), t)
	}
	return
}

// ---------------------------------------------------------------------------
// per-step oracle

type viol struct{ sig, desc string }

type stepResult struct {
	era       int
	clampChk  bool // the era's clamp claim was evaluated (not skipped, not excused)
	saturated bool // excluded from the clamp claim: saturation zone
	viols     []viol
}

func mul(a *big.Int, k int64) *big.Int { return new(big.Int).Mul(a, big.NewInt(k)) }

// checkStep checks one consecutive pair of proof-of-work states (prev -> next)
// of the header chain. clampTargets says whether the target-domain clamp claims
// (pre-Oak, Oak) apply to this parameter set (not for the 2^256-1 sets).
func checkStep(n *consensus.Network, clampTargets bool, prev, next *consensus.State, wr *wreader) (r stepResult) {
	add := func(sig, f string, a ...any) { r.viols = append(r.viols, viol{sig, fmt.Sprintf(f, a...)}) }
	h := next.Index.Height
	r.era = eraOf(n, h)
	en := eraNames[r.era]
	allow, final := n.HardforkV2.AllowHeight, n.HardforkV2.FinalCutHeight
	if r.era != eraGenesis && h != prev.Index.Height+1 {
		add("ApplyHeader|height-not-incremented|era="+en, "height %d after %d", h, prev.Index.Height)
	}
	T, T2 := bigOf(prev.ChildTarget), bigOf(next.ChildTarget)
	D, D2 := wr.big(prev.Difficulty), wr.big(next.Difficulty)
	TW, TW2 := wr.big(prev.TotalWork), wr.big(next.TotalWork)

	// never zero
	if D2.Sign() == 0 {
		add("ApplyHeader|difficulty-zero|era="+en, "difficulty became 0 at height %d (previous %v)", h, D)
	}
	// (4) inverse relation in the direction of the era
	switch {
	case h < allow:
		if T2.Sign() == 0 {
			add("ApplyHeader|target-zero|era="+en, "child target became 0 at height %d", h)
		} else if want := new(big.Int).Div(maxT, T2); D2.Cmp(want) != 0 {
			add("ApplyHeader|inverse-difficulty-of-target|era="+en, "height %d: Difficulty=%v but floor((2^256-1)/ChildTarget)=%v", h, D2, want)
		}
	case h < final:
		if D2.Sign() != 0 {
			if want := new(big.Int).Div(maxT, D2); T2.Cmp(want) != 0 {
				add("ApplyHeader|inverse-target-of-difficulty|era="+en, "height %d: ChildTarget=%v but floor((2^256-1)/Difficulty)=%v", h, T2, want)
			}
		}
	default:
		if next.Depth != (types.BlockID{}) || next.ChildTarget != (types.BlockID{}) || next.OakTarget != (types.BlockID{}) {
			add("ApplyHeader|deprecated-field-not-zero|era="+en, "height %d >= final cut: Depth/ChildTarget/OakTarget not all zero", h)
		}
	}
	// PoWTarget() of the new state
	{
		var got types.BlockID
		var p any
		func() {
			defer func() { p = recover() }()
			got = next.PoWTarget()
		}()
		if p != nil {
			add("PoWTarget|panic|era="+en, "PoWTarget() of the state at height %d panicked: %v", h, p)
		} else if want, ok := refTarget(next, wr); ok && got != want {
			add("PoWTarget|not-inverse-of-difficulty|era="+en, "height %d: PoWTarget()=%v want %v", h, bigOf(got), bigOf(want))
		}
	}
	if r.era == eraGenesis {
		return
	}
	// (3) cumulative work
	if c := TW2.Cmp(TW); c < 0 {
		add("ApplyHeader|totalwork-decreased|era="+en, "height %d: TotalWork %v -> %v", h, TW, TW2)
	} else if c == 0 && h >= allow {
		add("ApplyHeader|totalwork-not-increased-v2|era="+en, "height %d (v2 active): TotalWork stayed %v", h, TW)
	}
	// (2) clamp of the era
	satExcuse := func(upperNum, upperDen int64) bool {
		// the implementation maps every result of bit length 256 to 2^256-1; a step is
		// in the saturation zone only if the clamp's own upper bound reaches 2^255.
		if T2.Cmp(maxT) != 0 {
			return false
		}
		ub := new(big.Int).Div(mul(T, upperNum), big.NewInt(upperDen))
		return ub.Cmp(two255) >= 0
	}
	switch r.era {
	case eraPreOakHold:
		if !clampTargets {
			return
		}
		r.clampChk = true
		if T2.Cmp(T) != 0 {
			add("ApplyHeader|clamp-preoak-changed-off-schedule|era="+en, "height %d is not a multiple of 500 but target changed %v -> %v", h, T, T2)
		}
	case eraPreOakRetarget:
		if !clampTargets {
			return
		}
		if satExcuse(25, 10) {
			r.saturated = true
			return
		}
		r.clampChk = true
		// T2 >= floor(T*10/25)  <=>  25*(T2+1) > 10*T   (one unit of slack: integer floor of the product)
		if mul(new(big.Int).Add(T2, bigOne), 25).Cmp(mul(T, 10)) <= 0 {
			add("ApplyHeader|clamp-preoak-below-0.4|era="+en, "height %d: target %v -> %v is below x0.4", h, T, T2)
		}
		// T2 <= floor(T*25/10)  <=>  10*T2 <= 25*T
		if mul(T2, 10).Cmp(mul(T, 25)) > 0 {
			add("ApplyHeader|clamp-preoak-above-2.5|era="+en, "height %d: target %v -> %v is above x2.5", h, T, T2)
		}
	case eraOak:
		if !clampTargets {
			return
		}
		if satExcuse(1004, 1000) {
			r.saturated = true
			return
		}
		r.clampChk = true
		// T2 >= floor(T*1000/1004) <=> 1004*(T2+1) > 1000*T  (one unit of slack: integer floor)
		if mul(new(big.Int).Add(T2, bigOne), 1004).Cmp(mul(T, 1000)) <= 0 {
			add("ApplyHeader|clamp-oak-harder-than-0.4pct|era="+en, "height %d: target %v -> %v below x1000/1004", h, T, T2)
		}
		// T2 <= floor(T*1004/1000) <=> 1000*T2 <= 1004*T
		if mul(T2, 1000).Cmp(mul(T, 1004)) > 0 {
			add("ApplyHeader|clamp-oak-easier-than-0.4pct|era="+en, "height %d: target %v -> %v above x1004/1000", h, T, T2)
		}
	case eraASICReset:
		// the single scheduled reset: no clamp claim
	case eraV2:
		r.clampChk = true
		m := new(big.Int).Div(D, big.NewInt(250))
		if diff := new(big.Int).Abs(new(big.Int).Sub(D2, D)); diff.Cmp(m) > 0 {
			add("ApplyHeader|clamp-v2-exceeds-D/250|era="+en, "height %d: difficulty %v -> %v, allowed +-%v", h, D, D2, m)
		}
	case eraFinalCut:
		r.clampChk = true
		m := new(big.Int).Div(D, big.NewInt(250))
		if m.Sign() == 0 {
			m.SetInt64(1)
		}
		if diff := new(big.Int).Abs(new(big.Int).Sub(D2, D)); diff.Cmp(m) > 0 {
			add("ApplyHeader|clamp-finalcut-exceeds-max(D/250,1)|era="+en, "height %d: difficulty %v -> %v, allowed +-%v", h, D, D2, m)
		}
	}
	return
}

// (5) header == block on the proof-of-work fields
func diffPoW(a, b *consensus.State) string {
	switch {
	case a.Index != b.Index:
		return "Index"
	case a.Depth != b.Depth:
		return "Depth"
	case a.ChildTarget != b.ChildTarget:
		return "ChildTarget"
	case a.OakTime != b.OakTime:
		return "OakTime"
	case a.OakTarget != b.OakTarget:
		return "OakTarget"
	case a.TotalWork.Cmp(b.TotalWork) != 0:
		return "TotalWork"
	case a.Difficulty.Cmp(b.Difficulty) != 0:
		return "Difficulty"
	case a.OakWork.Cmp(b.OakWork) != 0:
		return "OakWork"
	}
	for i := range a.PrevTimestamps {
		if !a.PrevTimestamps[i].Equal(b.PrevTimestamps[i]) {
			return "PrevTimestamps"
		}
	}
	return ""
}
