// Package c13: difficulty retargeting is total, clamped, identical for headers
// and full blocks. Explicit-state exploration of a header model: every
// delta-sequence of length L over a menu of timestamp moves, from base states
// placed just before every era boundary, over a family of hand-built networks.
// The real ApplyHeader / ApplyBlock / ValidateHeader run on every transition;
// the oracle is the math/big reference in ref.go.
package c13

import (
	"bytes"
	"crypto/sha256"
	"encoding/binary"
	"encoding/json"
	"fmt"
	"math/big"
	"sort"
	"sync"
	"time"

	"go.sia.tech/core/consensus"
	"go.sia.tech/core/types"
	"verifmc/vf"
)

func init() {
	vf.Register(&vf.Check{ID: "C13", Level: "model_checking", Run: run, Replay: replay})
}

const genesisUnix = int64(1700000000)

// explored headers are mined only while a random nonce meets the target with
// probability >= 1/320 (the networks with initial target 2^248 start at 1/256)
var cheapTarget = toID(new(big.Int).Div(maxT, big.NewInt(320)))

const (
	year100 = int64(100 * 365 * 24 * 3600)
	hours3  = int64(3 * 3600)
)

// ---------------------------------------------------------------------------
// networks

type placement struct {
	Name                                                 string
	Oak, Fix, ASIC, Foundation, Allow, Require, FinalCut uint64
	ResetJump                                            bool // ASIC reset parameters chosen so that the reset is a x4 jump
	TinyReset                                            bool // ASIC reset to OakTime = 1 s and one block of work: the decayed time reaches 0 under constant timestamps
}

var placements = []placement{
	{Name: "compactA", Oak: 4, Fix: 6, ASIC: 9, Foundation: 11, Allow: 14, Require: 17, FinalCut: 20},
	{Name: "compactB", Oak: 3, Fix: 3, ASIC: 5, Foundation: 5, Allow: 8, Require: 8, FinalCut: 10, ResetJump: true},
	{Name: "compactC", Oak: 4, Fix: 5, ASIC: 7, Foundation: 8, Allow: 10, Require: 12, FinalCut: 14, TinyReset: true},
	{Name: "longPreOak", Oak: 1003, Fix: 1005, ASIC: 1008, Foundation: 1010, Allow: 1013, Require: 1015, FinalCut: 1018},
}

type netSpec struct {
	Name         string
	IntervalS    int64
	TargetBits   int // 248, 224, 256 (=2^256-1)
	Pl           placement
	n            *consensus.Network
	clampTargets bool // target-domain clamp claims apply (not for 2^256-1)
	mine         bool // a nonce meeting the target is searched for every header
	idx          int
}

func initialTarget(bits int) types.BlockID {
	if bits == 256 {
		return toID(maxT)
	}
	return toID(new(big.Int).Lsh(bigOne, uint(bits)))
}

func mkNet(intervalS int64, bits int, pl placement) *netSpec {
	n := &consensus.Network{
		Name:            fmt.Sprintf("c13-%ds-2^%d-%s", intervalS, bits, pl.Name),
		InitialCoinbase: types.Siacoins(300000),
		MinimumCoinbase: types.Siacoins(30000),
		InitialTarget:   initialTarget(bits),
		BlockInterval:   time.Duration(intervalS) * time.Second,
		MaturityDelay:   5,
	}
	n.HardforkDevAddr.Height = 1
	n.HardforkTax.Height = 2
	n.HardforkStorageProof.Height = 3
	n.HardforkOak.Height = pl.Oak
	n.HardforkOak.FixHeight = pl.Fix
	n.HardforkOak.GenesisTimestamp = time.Unix(genesisUnix, 0)
	n.HardforkASIC.Height = pl.ASIC
	// ASIC reset parameters. The retarget code estimates the hashrate in whole hashes per
	// second (oakWork / oakTime), so the reset work W must be at least oakTime seconds, or the
	// estimate truncates to 0 and the reset saturates to the maximal target. W = 200 blocks of
	// initial work over 200 intervals is the steady state of the decayed sums (decay 0.995).
	d0 := new(big.Int).Div(maxT, bigOf(n.InitialTarget))
	oakBlocks, workBlocks := int64(200), int64(200)
	if pl.ResetJump {
		// reset lands near 4x the initial target: far outside any per-block clamp
		oakBlocks, workBlocks = 100, 25
	}
	n.HardforkASIC.OakTime = time.Duration(oakBlocks*intervalS) * time.Second
	W := mul(d0, workBlocks)
	if minW := big.NewInt(oakBlocks * intervalS); bits != 256 && W.Cmp(minW) < 0 {
		W = minW // 1 hash per second (the 2^256-1 sets keep W small: their reset stays at the maximal target, difficulty 1)
	}
	if pl.TinyReset {
		// degenerate but legal: the decayed time floor(1*995/1000) is 0 one block later, which
		// exercises every "time <= 0" guard of the three algorithms under constant timestamps
		n.HardforkASIC.OakTime = time.Second
		W = d0
	}
	n.HardforkASIC.OakTarget = toID(new(big.Int).Div(maxT, W))
	n.HardforkASIC.NonceFactor = 1009
	n.HardforkFoundation.Height = pl.Foundation
	n.HardforkFoundation.PrimaryAddress = types.Address{1, 2, 3}
	n.HardforkFoundation.FailsafeAddress = types.VoidAddress
	n.HardforkV2.AllowHeight = pl.Allow
	n.HardforkV2.RequireHeight = pl.Require
	n.HardforkV2.FinalCutHeight = pl.FinalCut
	return &netSpec{Name: n.Name, IntervalS: intervalS, TargetBits: bits, Pl: pl, n: n,
		clampTargets: bits != 256, mine: bits >= 240}
}

// networks returns every parameter set: interval x initial target x placement
// (the degenerate-reset placement compactC on two of them only), plus the 2^256-1 sets (totality, monotonicity, inverse, never-zero and
// difficulty-domain clamps only) on the two compact placements.
func networks() []*netSpec {
	var out []*netSpec
	for _, iv := range []int64{600, 10} {
		for _, bits := range []int{248, 224} {
			for _, pl := range placements {
				if pl.TinyReset && !((iv == 600 && bits == 224) || (iv == 10 && bits == 248)) {
					continue // the degenerate-reset placement is used on two sets only
				}
				out = append(out, mkNet(iv, bits, pl))
			}
		}
		out = append(out, mkNet(iv, 256, placements[0]))
		out = append(out, mkNet(iv, 256, placements[1]))
	}
	// large-work sets: cumulative work and difficulty cross the 64-bit limb boundaries of the Work representation
	// (2^64 and 2^128) within a few blocks of the v2 eras (headers are not mined at these difficulties)
	out = append(out, mkNet(600, 194, placements[0]), mkNet(10, 130, placements[1]), mkNet(10, 66, placements[0]))
	for i, ns := range out {
		ns.idx = i
	}
	return out
}

// quickNets is the subset explored by the quick tier: 8 of the 18 sets, chosen so
// that every interval, target and placement occurs, and every (interval, target) pair.
var quickNets = map[string]bool{
	"c13-600s-2^248-compactA": true, "c13-600s-2^224-compactB": true, "c13-600s-2^224-longPreOak": true, "c13-600s-2^256-compactA": true,
	"c13-10s-2^248-compactB": true, "c13-10s-2^224-compactA": true, "c13-10s-2^256-compactB": true,
	"c13-10s-2^248-compactC": true,
	"c13-600s-2^194-compactA": true, "c13-10s-2^130-compactB": true,
}

func netByName(name string) *netSpec {
	for _, ns := range networks() {
		if ns.Name == name {
			return ns
		}
	}
	return nil
}

// ---------------------------------------------------------------------------
// regimes and bases

var regimeNames = []string{"nominal", "minimal", "fast", "slow"}

func regimeTS(ns *netSpec, regime int, path []int64) int64 {
	parent := path[len(path)-1]
	switch regime {
	case 0:
		return parent + ns.IntervalS
	case 1:
		return minAllowed(path)
	case 2:
		return parent + ns.IntervalS/3
	default:
		return parent + 3*ns.IntervalS
	}
}

// boundaries lists the child heights at which the rules change.
func boundaries(pl placement) []uint64 {
	b := []uint64{pl.Oak + 1, pl.Fix, pl.Fix + 1, pl.ASIC - 1, pl.ASIC, pl.Foundation, pl.Allow, pl.Require, pl.FinalCut}
	for h := uint64(500); h <= pl.Oak; h += 500 {
		b = append(b, h)
	}
	sort.Slice(b, func(i, j int) bool { return b[i] < b[j] })
	return b
}

// basesFor places base states so that every boundary X has at least two free
// moves before it and at least one after it within L moves (base in
// [X+1-L, X-3]); plus height 0 and one base entirely inside the final-cut era.
func basesFor(pl placement, L int) []int {
	set := map[int]bool{0: true}
	covered := -1 // boundaries <= covered are covered by the last base
	for _, x := range boundaries(pl) {
		X := int(x)
		if X <= covered {
			continue
		}
		b := X - 3
		if b < 0 {
			b = 0
		}
		set[b] = true
		covered = b + L - 1
	}
	set[int(pl.FinalCut)] = true
	var out []int
	for b := range set {
		out = append(out, b)
	}
	sort.Sort(sort.Reverse(sort.IntSlice(out))) // descending: see walker.run
	return out
}

// ---------------------------------------------------------------------------
// case descriptors (replay)

type caseDesc struct {
	Net    string  `json:"net"`
	Regime string  `json:"regime"`
	Base   int     `json:"base_height"`
	Deltas []int64 `json:"deltas_s"` // timestamp of each appended header minus its parent's timestamp
	Check  string  `json:"check"`    // "step" | "truth" | "sht"
	Other  *struct {
		Regime string  `json:"regime"`
		Base   int     `json:"base_height"`
		Deltas []int64 `json:"deltas_s"`
	} `json:"other,omitempty"`
	Note string `json:"note,omitempty"`
}

// ---------------------------------------------------------------------------
// walker: executes transitions for one prefix chain or one exploration job.
// Invariant: whenever key() is called for a state, w.path holds the timestamps
// of heights 0..state height.

type key16 [16]byte

type shtState struct {
	s    consensus.State
	base int
	dl   []int64
	reg  int
}

type walker struct {
	c        *vf.Ctx
	ns       *netSpec
	regime   int
	L        int
	ext      bool // extended menu (+1 s, -1 s)
	wr       *wreader
	addr     types.Address
	salt     uint64
	replay   bool
	inPrefix bool

	path   []int64 // timestamps of heights 0..current
	base   int
	deltas []int64

	visited map[key16]uint8

	// local counters
	transitions, states, traces, prefixTrans       int64
	eraCount, clampCount                           [numEras]int64
	saturated                                      int64
	movesFiltered                                  int64
	movesDecreasing, movesConstant, movesFarFuture int64
	vhAccept, vhReject                             int64
	mineTries                                      int64
	dedupSkips                                     int64
	truthRows, truthInfeasible                     int64
	truthAccept, truthReject                       int64
	truthOnly                                      [4]int64
	truthStates                                    int64
	stateSeq                                       int64

	shtCap, truthCap       int
	shtStride, truthStride int64
	sht                    []shtState
	payout                 []types.SiacoinOutput
	samples                int
}

func (w *walker) desc(check, note string) caseDesc {
	return caseDesc{Net: w.ns.Name, Regime: regimeNames[w.regime], Base: w.base,
		Deltas: append([]int64(nil), w.deltas...), Check: check, Note: note}
}

func (w *walker) violate(v viol, check string) {
	w.c.Violate(v.sig, fmt.Sprintf("[%s, prefix regime %s to height %d, then deltas(s) %v] %s", w.ns.Name, regimeNames[w.regime], w.base, w.deltas, v.desc), w.desc(check, ""))
}

func (w *walker) key(s *consensus.State) key16 {
	var buf [8 + 8 + 8*8 + 11*8 + 32*6 + 8]byte
	o := 0
	put := func(u uint64) { binary.LittleEndian.PutUint64(buf[o:], u); o += 8 }
	put(uint64(w.ns.idx))
	put(s.Index.Height)
	// the part of the older history that can still matter: the 1000-back ancestors of the
	// next 8 children (all are the genesis block while height+8 <= 1000)
	for i := uint64(1); i <= 8; i++ {
		var a int64
		if ch := s.Index.Height + i; ch > 1000 {
			a = w.path[ch-1000] - genesisUnix
		}
		put(uint64(a))
	}
	for i := range s.PrevTimestamps {
		put(uint64(s.PrevTimestamps[i].Unix() - genesisUnix))
	}
	put(uint64(s.OakTime))
	copy(buf[o:], s.Depth[:])
	o += 32
	copy(buf[o:], s.ChildTarget[:])
	o += 32
	copy(buf[o:], s.OakTarget[:])
	o += 32
	b := w.wr.bytes(s.TotalWork)
	copy(buf[o:], b[:])
	o += 32
	b = w.wr.bytes(s.Difficulty)
	copy(buf[o:], b[:])
	o += 32
	b = w.wr.bytes(s.OakWork)
	copy(buf[o:], b[:])
	o += 32
	h := sha256.Sum256(buf[:o])
	var k key16
	copy(k[:], h[:16])
	return k
}

// search looks for a nonce with the requested divisibility and target
// relation. It returns false if none was found within maxTries.
func (w *walker) search(bh *types.BlockHeader, factor uint64, target types.BlockID, wantDiv, wantMeet bool, maxTries int) bool {
	start := (w.salt % 1000) * factor
	for i := 0; i < maxTries; i++ {
		n := start + uint64(i)*factor
		if !wantDiv {
			n++
		}
		bh.Nonce = n
		w.mineTries++
		if meetsTarget(bh.ID(), target) == wantMeet {
			return true
		}
	}
	return false
}

// apply runs one transition on both lineages and every per-step oracle.
// hs: header-only lineage, fs: full-block lineage. ts: new timestamp.
func (w *walker) apply(hs, fs *consensus.State, ts int64, genesis bool) (nh, nf consensus.State, ok bool) {
	n := w.ns.n
	var childH uint64
	if !genesis {
		childH = hs.Index.Height + 1
	}
	b := types.Block{Timestamp: time.Unix(ts, 0)}
	var tt time.Time
	if !genesis {
		b.ParentID = hs.Index.ID
		w.payout[0] = types.SiacoinOutput{Value: fs.BlockReward(), Address: w.addr}
		b.MinerPayouts = w.payout
		if childH >= n.HardforkV2.RequireHeight || (childH >= n.HardforkV2.AllowHeight && childH%2 == 0) {
			b.V2 = &types.V2BlockData{Height: childH, Commitment: fs.Commitment(w.addr, nil, nil)}
		}
		anc := uint64(0)
		if childH > 1000 {
			anc = childH - 1000
		}
		tt = time.Unix(w.path[anc], 0)
	}
	bh := b.Header()
	if !genesis {
		factor := refNonceFactor(hs)
		target, tok := refTarget(hs, w.wr)
		if w.ns.mine && tok && bytes.Compare(target[:], cheapTarget[:]) >= 0 {
			if !w.search(&bh, factor, target, true, true, 1<<22) {
				w.c.HarnessError("nonce search failed on %s at height %d", w.ns.Name, childH)
				return nh, nf, false
			}
		} else {
			bh.Nonce = (w.salt % 1000) * factor
		}
		b.Nonce = bh.Nonce
		if b.Header() != bh {
			w.c.HarnessError("Block.Header() not reproducible")
			return nh, nf, false
		}
		// (6, accept direction on the explored move) the explored header must be judged as the reference predicts
		pOK, tOK, nOK, wOK := refValid(hs, w.path, bh, w.wr)
		want := pOK && tOK && nOK && wOK
		var err error
		if p, _ := vf.Try(func() { err = consensus.ValidateHeader(*hs, bh) }); p != nil {
			w.violate(viol{"ValidateHeader|panic|explored-move", fmt.Sprintf("ValidateHeader panicked at height %d: %v", childH, p)}, "step")
		} else if (err == nil) != want {
			cls := "rejects-valid"
			if err == nil {
				cls = "accepts-invalid"
			}
			w.violate(viol{"ValidateHeader|" + cls + "|explored-move", fmt.Sprintf("height %d ts=%d (min allowed %d): ValidateHeader accept=%v, reference accept=%v (parent=%v ts=%v nonce=%v work=%v)",
				childH, ts, minAllowed(w.path), err == nil, want, pOK, tOK, nOK, wOK)}, "step")
		}
		if err == nil {
			w.vhAccept++
		} else {
			w.vhReject++
		}
	}
	// (1) totality
	if w.inPrefix {
		w.base = int(childH) // a failing prefix step is replayed as "prefix to this height"
	} else {
		w.deltas = append(w.deltas, ts-w.path[len(w.path)-1])
		defer func() { w.deltas = w.deltas[:len(w.deltas)-1] }()
	}
	w.transitions++
	if p, _ := vf.Try(func() { nh = consensus.ApplyHeader(*hs, bh, tt) }); p != nil {
		w.violate(viol{"ApplyHeader|panic|era=" + eraNames[eraOf(n, childH)], fmt.Sprintf("ApplyHeader panicked producing height %d: %v", childH, p)}, "step")
		return nh, nf, false
	}
	if p, _ := vf.Try(func() { nf, _ = consensus.ApplyBlock(*fs, b, consensus.V1BlockSupplement{}, tt) }); p != nil {
		w.violate(viol{"ApplyBlock|panic|era=" + eraNames[eraOf(n, childH)], fmt.Sprintf("ApplyBlock panicked producing height %d: %v", childH, p)}, "step")
		return nh, nf, false
	}
	// (5) header == block
	if f := diffPoW(&nh, &nf); f != "" {
		w.violate(viol{"ApplyBlock|pow-state-differs-from-ApplyHeader|field=" + f, fmt.Sprintf("height %d (%s block): field %s differs between ApplyHeader and ApplyBlock", childH, map[bool]string{true: "v2", false: "v1"}[b.V2 != nil], f)}, "step")
	}
	// (2)(3)(4)
	r := checkStep(n, w.ns.clampTargets, hs, &nh, w.wr)
	w.eraCount[r.era]++
	if r.clampChk {
		w.clampCount[r.era]++
	}
	if r.saturated {
		w.saturated++
	}
	for _, v := range r.viols {
		w.violate(v, "step")
	}
	return nh, nf, true
}

// menu returns the distinct admissible timestamps for the child of the tip.
func (w *walker) menu() []int64 {
	parent := w.path[len(w.path)-1]
	lo := minAllowed(w.path)
	iv := w.ns.IntervalS
	cands := []int64{lo, parent, parent + iv/3, parent + iv, parent + 3*iv, parent + hours3, parent + year100}
	if w.ext {
		cands = append(cands, parent+1, parent-1)
	}
	var out []int64
	for _, t := range cands {
		if t < lo {
			w.movesFiltered++
			continue
		}
		dup := false
		for _, u := range out {
			if u == t {
				dup = true
			}
		}
		if !dup {
			out = append(out, t)
		}
	}
	return out
}

// visit registers the state in the job's visited set; returns true if it has
// to be expanded with rem remaining moves (not yet expanded with as large a
// budget within this job).
func (w *walker) visit(s *consensus.State, rem int) (expand bool, isNew bool) {
	k := w.key(s)
	old, seen := w.visited[k]
	if !seen {
		isNew = true
	}
	if int(old) >= rem+1 {
		if rem > 0 {
			w.dedupSkips++
		}
		return false, isNew
	}
	w.visited[k] = uint8(rem + 1)
	return rem > 0, isNew
}

func (w *walker) onNewState(hs *consensus.State) {
	w.stateSeq++
	if len(w.sht) < w.shtCap && w.stateSeq%w.shtStride == 0 {
		w.sht = append(w.sht, shtState{s: *hs, base: w.base, dl: append([]int64(nil), w.deltas...), reg: w.regime})
	}
	if int(w.truthStates) < w.truthCap && w.stateSeq%w.truthStride == 0 {
		w.truthTable(hs)
	}
}

func (w *walker) dfs(hs, fs *consensus.State, rem int) {
	if rem == 0 {
		return
	}
	if w.c.Expired() {
		return
	}
	for _, ts := range w.menu() {
		nh, nf, ok := w.apply(hs, fs, ts, false)
		if !ok {
			continue
		}
		w.path = append(w.path, ts)
		w.deltas = append(w.deltas, ts-w.path[len(w.path)-2])
		if d := w.deltas[len(w.deltas)-1]; d < 0 {
			w.movesDecreasing++
		} else if d == 0 {
			w.movesConstant++
		} else if d == year100 {
			w.movesFarFuture++
		}
		expand, isNew := w.visit(&nh, rem-1)
		if isNew {
			w.onNewState(&nh)
		}
		if rem-1 == 0 {
			w.traces++
			if w.samples < 1 && len(w.deltas) == w.L && w.traces == 1000+int64(w.base%7)*531 {
				w.samples++
				w.c.Sample(map[string]any{"net": w.ns.Name, "regime": regimeNames[w.regime], "base_height": w.base, "deltas_s": append([]int64(nil), w.deltas...),
					"final_height": nh.Index.Height, "final_difficulty": nh.Difficulty.String(), "final_total_work": nh.TotalWork.String()})
			}
		}
		if expand {
			w.dfs(&nh, &nf, rem-1)
		}
		w.deltas = w.deltas[:len(w.deltas)-1]
		w.path = w.path[:len(w.path)-1]
	}
}

// genesis applies the genesis block on both lineages.
func (w *walker) genesis() (hs, fs consensus.State, ok bool) {
	g := w.ns.n.GenesisState()
	w.path = w.path[:0]
	w.inPrefix = true
	hs, fs, ok = w.apply(&g, &g, genesisUnix, true)
	w.path = append(w.path, genesisUnix)
	return
}

type statePair struct{ hs, fs consensus.State }

// prefixInfo is the deterministic regime chain of one (network, regime).
type prefixInfo struct {
	path []int64
	at   map[int]statePair
}

// buildPrefix grows the chain under the regime up to the highest base, with
// every per-step oracle active.
func (w *walker) buildPrefix(bases []int) *prefixInfo {
	maxBase := 0
	isBase := map[int]bool{}
	for _, b := range bases {
		isBase[b] = true
		if b > maxBase {
			maxBase = b
		}
	}
	pi := &prefixInfo{at: map[int]statePair{}}
	hs, fs, ok := w.genesis()
	if !ok {
		return nil
	}
	w.visit(&hs, 0)
	if isBase[0] {
		pi.at[0] = statePair{hs, fs}
	}
	for h := 1; h <= maxBase; h++ {
		ts := regimeTS(w.ns, w.regime, w.path)
		nh, nf, ok := w.apply(&hs, &fs, ts, false)
		if !ok {
			return nil
		}
		w.prefixTrans++
		w.path = append(w.path, ts)
		hs, fs = nh, nf
		if _, isNew := w.visit(&hs, 0); isNew {
			w.onNewState(&hs)
		}
		if isBase[h] {
			pi.at[h] = statePair{hs, fs}
		}
	}
	w.traces++ // the regime prefix itself is one fully checked sequence
	pi.path = append([]int64(nil), w.path...)
	return pi
}

// explore runs ALL sequences of ps.L moves from the base state at height b.
func (w *walker) explore(pi *prefixInfo, b int, ps pass) {
	w.L, w.ext = ps.L, ps.Ext
	p := pi.at[b]
	w.base = b
	w.inPrefix = false
	w.path = append(w.path[:0], pi.path[:b+1]...)
	w.deltas = w.deltas[:0]
	if expand, _ := w.visit(&p.hs, w.L); expand {
		w.dfs(&p.hs, &p.fs, w.L)
	}
}

// a pass explores all sequences of L moves of the basic or extended menu.
type pass struct {
	Name string `json:"name"`
	L    int    `json:"L"`
	Ext  bool   `json:"extended_menu"`
	Only string `json:"restricted_to,omitempty"`
	sel  func(ns *netSpec, regime int) bool
}

func passesFor(c *vf.Ctx) []pass {
	deepNets := func(ns *netSpec, regime int) bool {
		return regime == 0 && ns.Name == "c13-10s-2^248-compactB"
	}
	if c.Quick() {
		return []pass{{Name: "main", L: 5}, {Name: "fine", L: 3, Ext: true}}
	}
	return []pass{
		{Name: "deep", L: 7, Only: "nominal regime of c13-10s-2^248-compactB", sel: deepNets},
		{Name: "main", L: 6},
		{Name: "fine", L: 4, Ext: true},
	}
}

// ---------------------------------------------------------------------------
// (6) ValidateHeader truth table at one state (w.path is its timestamp history)

func (w *walker) truthTable(hs *consensus.State) {
	w.truthStates++
	factor := refNonceFactor(hs)
	target, tok := refTarget(hs, w.wr)
	if !tok {
		return
	}
	tb := bigOf(target)
	canMeet := tb.BitLen() >= 240 // a meeting nonce is found within ~2^17 tries
	canMiss := tb.Cmp(maxT) != 0
	lo := minAllowed(w.path)
	tsChoices := [3]int64{lo - 1, lo, lo + w.ns.IntervalS}
	for pi := 0; pi < 2; pi++ {
		for ti := 0; ti < 3; ti++ {
			for ni := 0; ni < 2; ni++ {
				for mi := 0; mi < 2; mi++ {
					wantDiv, wantMeet := ni == 0, mi == 0
					if (!wantDiv && factor == 1) || (wantMeet && !canMeet) || (!wantMeet && !canMiss) {
						w.truthInfeasible++
						continue
					}
					bh := types.BlockHeader{ParentID: hs.Index.ID, Timestamp: time.Unix(tsChoices[ti], 0)}
					binary.LittleEndian.PutUint64(bh.Commitment[:], w.salt)
					bh.Commitment[9] = byte(pi*12 + ti*4 + ni*2 + mi)
					if pi == 1 {
						bh.ParentID[31] ^= 1
					}
					if !w.search(&bh, factor, target, wantDiv, wantMeet, 1<<20) {
						w.truthInfeasible++
						continue
					}
					pOK, tOK, nOK, wOK := refValid(hs, w.path, bh, w.wr)
					if pOK != (pi == 0) || tOK != (ti != 0) || nOK != wantDiv || wOK != wantMeet {
						w.c.HarnessError("truth table row not constructed as intended (%v %v %v %v)", pOK, tOK, nOK, wOK)
						continue
					}
					want := pOK && tOK && nOK && wOK
					w.truthRows++
					var err error
					row := fmt.Sprintf("parent=%v,ts=%s,nonce=%v,work=%v", pOK, [3]string{"below-median", "at-median", "above-median"}[ti], nOK, wOK)
					if p, _ := vf.Try(func() { err = consensus.ValidateHeader(*hs, bh) }); p != nil {
						w.c.Violate("ValidateHeader|panic|"+row, fmt.Sprintf("[%s] ValidateHeader panicked at height %d: %v", w.ns.Name, hs.Index.Height, p), w.desc("truth", row))
						continue
					}
					if (err == nil) != want {
						cls := "rejects-valid"
						if err == nil {
							cls = "accepts-invalid"
						}
						w.c.Violate("ValidateHeader|"+cls+"|"+row, fmt.Sprintf("[%s, regime %s to %d, deltas %v] state at height %d, header ts=%d (median*2=%d) nonce=%d factor=%d: accept=%v, reference=%v",
							w.ns.Name, regimeNames[w.regime], w.base, w.deltas, hs.Index.Height, tsChoices[ti], median2(w.path), bh.Nonce, factor, err == nil, want), w.desc("truth", row))
					}
					if err == nil {
						w.truthAccept++
					} else {
						w.truthReject++
						bad := 0
						which := -1
						for i, okc := range [4]bool{pOK, tOK, nOK, wOK} {
							if !okc {
								bad++
								which = i
							}
						}
						if bad == 1 {
							w.truthOnly[which]++
						}
					}
				}
			}
		}
	}
}

// ---------------------------------------------------------------------------
// (7) SufficientlyHeavierThan asymmetry

func shtPairs(c *vf.Ctx, ns *netSpec, pool []shtState) {
	pairs := c.Counter("sht_ordered_pairs")
	pos := c.Counter("sht_true")
	vf.ParallelFor(len(pool), func(i int) {
		a := &pool[i]
		var np, nt int64
		for j := i; j < len(pool); j++ {
			b := &pool[j]
			var ab, ba bool
			if p, _ := vf.Try(func() { ab = a.s.SufficientlyHeavierThan(b.s); ba = b.s.SufficientlyHeavierThan(a.s) }); p != nil {
				c.Violate("SufficientlyHeavierThan|panic|visited-states", fmt.Sprintf("[%s] panicked: %v", ns.Name, p), shtCase(ns, a, b))
				continue
			}
			if i == j {
				np++
				if ab {
					c.Violate("SufficientlyHeavierThan|reflexive|a>a", fmt.Sprintf("[%s] a state is sufficiently heavier than itself (height %d)", ns.Name, a.s.Index.Height), shtCase(ns, a, b))
				}
				continue
			}
			np += 2
			if ab {
				nt++
			}
			if ba {
				nt++
			}
			if ab && ba {
				c.Violate("SufficientlyHeavierThan|symmetric-pair|a>b-and-b>a", fmt.Sprintf("[%s] heights %d and %d: each is sufficiently heavier than the other (TotalWork %v / %v, Difficulty %v / %v)",
					ns.Name, a.s.Index.Height, b.s.Index.Height, a.s.TotalWork, b.s.TotalWork, a.s.Difficulty, b.s.Difficulty), shtCase(ns, a, b))
			}
		}
		pairs.Add(np)
		pos.Add(nt)
	})
}

func shtCase(ns *netSpec, a, b *shtState) caseDesc {
	cd := caseDesc{Net: ns.Name, Regime: regimeNames[a.reg], Base: a.base, Deltas: a.dl, Check: "sht"}
	cd.Other = &struct {
		Regime string  `json:"regime"`
		Base   int     `json:"base_height"`
		Deltas []int64 `json:"deltas_s"`
	}{regimeNames[b.reg], b.base, b.dl}
	return cd
}

// ---------------------------------------------------------------------------

// shardedSet is the global set of canonical state keys.
type shardedSet struct {
	sh [256]struct {
		mu sync.Mutex
		m  map[key16]struct{}
	}
}

// merge inserts the keys and returns how many were new; every new key is one
// distinct non-trivial case.
func (ss *shardedSet) merge(c *vf.Ctx, keys map[key16]uint8) (added int64) {
	for k := range keys {
		sh := &ss.sh[k[0]]
		sh.mu.Lock()
		if sh.m == nil {
			sh.m = map[key16]struct{}{}
		}
		_, seen := sh.m[k]
		if !seen {
			sh.m[k] = struct{}{}
		}
		sh.mu.Unlock()
		if !seen {
			added++
			c.DistinctBytes(k[:])
		}
	}
	return
}

func newWalker(c *vf.Ctx, ns *netSpec, regime, L int) *walker {
	w := &walker{c: c, ns: ns, regime: regime, L: L, wr: newWreader(), visited: map[key16]uint8{},
		payout: make([]types.SiacoinOutput, 1), shtStride: 1, truthStride: 1}
	w.salt = uint64(c.Seed)*0x9E3779B97F4A7C15 + 12345
	h := sha256.Sum256([]byte(fmt.Sprintf("c13 miner %d", c.Seed)))
	copy(w.addr[:], h[:])
	return w
}

func selfCheckWork(c *vf.Ctx) bool {
	wr := newWreader()
	for _, ns := range networks()[:3] {
		g := ns.n.GenesisState()
		for _, wk := range []consensus.Work{g.Difficulty, g.TotalWork, g.OakWork} {
			if wr.big(wk).String() != wk.String() {
				c.HarnessError("Work binary encoding disagrees with its decimal form")
				return false
			}
			txt, _ := wk.MarshalText()
			if string(txt) != wk.String() {
				c.HarnessError("Work.MarshalText disagrees with String")
				return false
			}
		}
	}
	return true
}

func run(c *vf.Ctx) {
	if !selfCheckWork(c) {
		return
	}
	nets := networks()
	if c.Quick() {
		var sub []*netSpec
		for _, ns := range nets {
			if quickNets[ns.Name] {
				sub = append(sub, ns)
			}
		}
		if len(sub) != len(quickNets) {
			c.HarnessError("quick network subset does not match the network list")
			return
		}
		nets = sub
		c.Set("tier_scope", "the quick tier explores 8 of the 18 parameter sets (all 18 in the thorough tier)")
	}
	allPasses := passesFor(c)
	L := 0
	for _, ps := range allPasses {
		if ps.Name == "main" {
			L = ps.L
		}
	}
	t0 := time.Now()
	// phase 1: regime prefixes, one per (network, regime)
	type chain struct {
		ns     *netSpec
		regime int
		bases  []int
		pi     *prefixInfo
	}
	var chains []*chain
	for _, ns := range nets {
		bases := basesFor(ns.Pl, L)
		for r := range regimeNames {
			chains = append(chains, &chain{ns: ns, regime: r, bases: bases})
		}
	}
	var walkers []*walker // in deterministic order: chains first, then jobs by id
	chainW := make([]*walker, len(chains))
	vf.ParallelFor(len(chains), func(i int) {
		ch := chains[i]
		w := newWalker(c, ch.ns, ch.regime, 0)
		w.shtCap, w.truthCap = 25, vf.Pick(c, 8, 25)
		n := int64(ch.bases[0] + 1)
		w.shtStride, w.truthStride = max(1, n/int64(w.shtCap)), max(1, n/int64(w.truthCap))
		ch.pi = w.buildPrefix(ch.bases)
		chainW[i] = w
	})
	walkers = append(walkers, chainW...)
	// phase 2: one job per (network, regime, base, pass)
	type job struct {
		ch   *chain
		base int
		ps   pass
		est  int64
	}
	var jobs []*job
	for _, ch := range chains {
		if ch.pi == nil {
			continue
		}
		for _, ps := range allPasses {
			if ps.sel != nil && !ps.sel(ch.ns, ch.regime) {
				continue
			}
			m := int64(7)
			if ps.Ext {
				m = 9
			}
			var sum, pw int64 = 0, 1
			for k := 0; k < ps.L; k++ {
				pw *= m
				sum += pw
			}
			for _, b := range ch.bases {
				if b == 0 && ch.regime != 0 {
					continue // the genesis base has an empty prefix: identical for every regime
				}
				jobs = append(jobs, &job{ch: ch, base: b, ps: ps, est: sum})
			}
		}
	}
	order := make([]int, len(jobs))
	for i := range order {
		order[i] = i
	}
	sort.SliceStable(order, func(a, b int) bool { // heavy jobs first
		ca, cb := jobs[order[a]].est, jobs[order[b]].est
		if jobs[order[a]].ch.ns.mine {
			ca *= 2
		}
		if jobs[order[b]].ch.ns.mine {
			cb *= 2
		}
		return ca > cb
	})
	shtPerJob := vf.Pick(c, 24, 40)
	truthPerJob := vf.Pick(c, 16, 40)
	jobW := make([]*walker, len(jobs))
	jobWall := make([]float64, len(jobs))
	var stateSet shardedSet
	for _, w := range chainW {
		w.states = stateSet.merge(c, w.visited)
		w.visited = nil
	}
	vf.ParallelFor(len(jobs), func(oi int) {
		i := order[oi]
		j := jobs[i]
		ts0 := time.Now()
		w := newWalker(c, j.ch.ns, j.ch.regime, j.ps.L)
		w.shtCap, w.truthCap = shtPerJob, truthPerJob
		w.shtStride = max(1, j.est/int64(shtPerJob))
		w.truthStride = max(1, j.est/int64(truthPerJob))
		jobW[i] = w
		w.explore(j.ch.pi, j.base, j.ps)
		// distinct canonical PoW states over all jobs
		w.states = stateSet.merge(c, w.visited)
		w.visited = nil
		jobWall[i] = time.Since(ts0).Seconds()
	})
	walkers = append(walkers, jobW...)
	exploreWall := time.Since(t0).Seconds()
	// aggregate
	perNet := map[string]map[string]int64{}
	pools := map[int][]shtState{}
	for _, w := range walkers {
		c.Count("transitions", w.transitions)
		c.Count("states", w.states)
		c.Count("traces_validated_against_impl", w.traces)
		c.Count("prefix_transitions", w.prefixTrans)
		for e := 0; e < numEras; e++ {
			c.Count("era_"+eraNames[e], w.eraCount[e])
			c.Count("clampchk_"+eraNames[e], w.clampCount[e])
		}
		c.Count("saturation_zone_steps_excluded_from_clamp", w.saturated)
		c.Count("moves_filtered_by_median_rule", w.movesFiltered)
		c.Count("moves_decreasing_within_rule", w.movesDecreasing)
		c.Count("moves_constant_timestamp", w.movesConstant)
		c.Count("moves_far_future_100y", w.movesFarFuture)
		c.Count("explored_header_validate_accept", w.vhAccept)
		c.Count("explored_header_validate_reject_unmined", w.vhReject)
		c.Count("nonce_tries", w.mineTries)
		c.Count("dedup_skipped_expansions", w.dedupSkips)
		c.Count("truth_states", w.truthStates)
		c.Count("truth_rows", w.truthRows)
		c.Count("truth_rows_infeasible", w.truthInfeasible)
		c.Count("truth_accept", w.truthAccept)
		c.Count("truth_reject", w.truthReject)
		for i, nm := range []string{"parent", "timestamp", "nonce", "work"} {
			c.Count("truth_reject_only_"+nm, w.truthOnly[i])
		}
		m := perNet[w.ns.Name]
		if m == nil {
			m = map[string]int64{}
			perNet[w.ns.Name] = m
		}
		m["transitions"] += w.transitions
		m["states"] += w.states
		for e := 1; e < numEras; e++ {
			m[eraNames[e]] += w.eraCount[e]
		}
		pools[w.ns.idx] = append(pools[w.ns.idx], w.sht...)
	}
	for _, ns := range nets {
		pool := pools[ns.idx]
		if len(pool) > 2000 { // deterministic thinning to 2000 states
			var thin []shtState
			for i := 0; i < 2000; i++ {
				thin = append(thin, pool[i*len(pool)/2000])
			}
			pool = thin
		}
		c.Count("sht_states", int64(len(pool)))
		shtPairs(c, ns, pool)
	}
	c.Count("evaluations", c.Get("transitions")+c.Get("truth_rows")+c.Get("sht_ordered_pairs"))
	sort.Float64s(jobWall)
	c.Set("timing_info_not_an_oracle", map[string]any{"explore_wall_s": exploreWall, "total_wall_s": time.Since(t0).Seconds(), "longest_job_s": jobWall[len(jobWall)-1], "jobs": len(jobs)})
	c.Set("per_network", perNet)
	c.Set("networks", len(nets))
	c.Set("passes", allPasses)
	c.Set("sequence_length_L_main_pass", L)
	c.Set("menu", "new timestamp in {min allowed by the median rule, parent+0, +interval/3, +interval, +3*interval, +3h, +100y"+"} (basic menu); the extended menu of the 'fine' pass adds +1s and -1s; entries below the median are dropped, equal entries merged")
	basesDesc := map[string][]int{}
	for _, pl := range placements {
		basesDesc[pl.Name] = basesFor(pl, L)
	}
	c.Set("base_heights", basesDesc)
	c.Set("regimes", regimeNames)
	c.Set("rule", "for every network (interval x initial target x fork placement) and every prefix regime, the chain is grown deterministically to each base height; from each base ALL sequences of L moves of the menu are executed depth-first, once per pass (see passes: L and menu) (states are identified by a canonical key = hash of network, height, PoW fields, 11-timestamp window relative to genesis and the 1000-back ancestor timestamps still reachable; block IDs are not part of it). Every transition runs ApplyHeader, ApplyBlock, ValidateHeader and the step oracle. A case is a transition; distinct_nontrivial counts distinct canonical PoW states reached")
	c.Assume("steps whose result lies in the saturation zone (clamp upper bound >= 2^255, result mapped to 2^256-1) are excluded from the target-domain clamp claim; parameter sets with initial target 2^256-1 are used for totality, monotonicity, inverse, never-zero and difficulty-domain clamps only")
	c.Assume("target-domain clamp bounds are compared by cross-multiplication; the lower bounds (x10/25, x1000/1004) allow one unit for the integer floor of the product, upper bounds allow none")
	c.Assume("hash values are uninterpreted: the nonce only selects whether the ID meets the target; states are merged regardless of block IDs (the seed salts miner address and nonce start, counts must not depend on it)")
	c.Assume("targetTimestamp supplied as a node would: timestamp of the ancestor at height max(0, childHeight-1000)")
	c.Assume("networks with initial target 2^224 are not mined; their explored headers are judged 'insufficient work' by both sides and their truth tables have no accepting row")
	c.Assume("explored headers are mined (nonce searched until the ID meets the target) only while a random nonce succeeds with probability >= 1/320; other explored headers are left unmined and must be rejected for insufficient work unless their ID happens to meet the target (the only seed-dependent counters are explored_header_validate_accept/reject and nonce_tries)")
	c.Assume("the clamp of the pre-Oak era is checked as: target unchanged unless the new height is a multiple of 500, then within [x10/25, x25/10]; the Oak-era clamp as within [x1000/1004, x1004/1000] except at the ASIC height; era boundaries as in the code (pre-Oak rule up to and including the Oak height)")
	c.Assume("the property states clamps and relations, not the retarget formula: the direction/size of an adjustment inside the clamp is not checked")
	// vacuity guards
	c.RequireFeature("clampchk_preoak_retarget", "clampchk_preoak_hold", "clampchk_oak", "era_asic_reset", "clampchk_v2", "clampchk_finalcut",
		"explored_header_validate_accept", "traces_validated_against_impl")
	if !c.Expired() { // these are fed by the last (small) jobs; a run cut by the time budget is reported as not exhaustive instead
		c.RequireFeature("truth_accept", "truth_reject", "truth_reject_only_parent", "truth_reject_only_timestamp", "truth_reject_only_nonce", "truth_reject_only_work",
			"sht_ordered_pairs", "sht_true", "moves_filtered_by_median_rule", "moves_decreasing_within_rule", "moves_constant_timestamp", "moves_far_future_100y")
	}
}

// ---------------------------------------------------------------------------
// replay

func regimeIdx(name string) int {
	for i, n := range regimeNames {
		if n == name {
			return i
		}
	}
	return -1
}

// replayPath rebuilds prefix + deltas with every per-step oracle active and
// returns the final header-lineage state (the walker's path is left at it).
func replayPath(c *vf.Ctx, ns *netSpec, regime string, base int, deltas []int64) (*walker, *consensus.State) {
	ri := regimeIdx(regime)
	if ri < 0 {
		c.HarnessError("unknown regime %q", regime)
		return nil, nil
	}
	w := newWalker(c, ns, ri, len(deltas))
	w.replay = true
	w.ext = true
	hs, fs, ok := w.genesis()
	if !ok {
		return w, nil
	}
	for h := 1; h <= base; h++ {
		ts := regimeTS(ns, ri, w.path)
		nh, nf, ok := w.apply(&hs, &fs, ts, false)
		if !ok {
			return w, nil
		}
		w.path = append(w.path, ts)
		hs, fs = nh, nf
	}
	w.base = base
	w.inPrefix = false
	for _, d := range deltas {
		ts := w.path[len(w.path)-1] + d
		if ts < minAllowed(w.path) {
			c.HarnessError("replay: delta %d violates the median rule", d)
			return w, nil
		}
		nh, nf, ok := w.apply(&hs, &fs, ts, false)
		if !ok {
			return w, nil
		}
		w.path = append(w.path, ts)
		w.deltas = append(w.deltas, d)
		hs, fs = nh, nf
	}
	c.Count("transitions", w.transitions)
	c.Count("evaluations", w.transitions)
	return w, &hs
}

func replay(c *vf.Ctx, raw json.RawMessage) {
	var cd caseDesc
	if err := json.Unmarshal(raw, &cd); err != nil {
		c.HarnessError("bad case: %v", err)
		return
	}
	ns := netByName(cd.Net)
	if ns == nil {
		c.HarnessError("unknown network %q", cd.Net)
		return
	}
	w, hs := replayPath(c, ns, cd.Regime, cd.Base, cd.Deltas)
	if hs == nil {
		return
	}
	switch cd.Check {
	case "truth":
		w.truthTable(hs)
		c.Count("evaluations", w.truthRows)
	case "sht":
		if cd.Other == nil {
			c.HarnessError("sht case without second path")
			return
		}
		_, hs2 := replayPath(c, ns, cd.Other.Regime, cd.Other.Base, cd.Other.Deltas)
		if hs2 == nil {
			return
		}
		shtPairs(c, ns, []shtState{{s: *hs, base: cd.Base, dl: cd.Deltas, reg: regimeIdx(cd.Regime)},
			{s: *hs2, base: cd.Other.Base, dl: cd.Other.Deltas, reg: regimeIdx(cd.Other.Regime)}})
	}
}
