package c16

import (
	"bytes"
	"fmt"
	"sort"

	rhp2 "go.sia.tech/core/rhp/v2"
	rhp4 "go.sia.tech/core/rhp/v4"
	"verifmc/vf"
)

// boundarySet is S = {0..5,63,64,65} u {2^k-1,2^k,2^k+1 : k<=16} u {65535,65536} clipped to [0,65536].
func boundarySet() []int {
	set := map[int]bool{}
	for _, v := range []int{0, 1, 2, 3, 4, 5, 63, 64, 65, 65535, 65536} {
		set[v] = true
	}
	for k := 0; k <= 16; k++ {
		for d := -1; d <= 1; d++ {
			v := 1<<k + d
			if v >= 0 && v <= leavesPerSector {
				set[v] = true
			}
		}
	}
	var out []int
	for v := range set {
		out = append(out, v)
	}
	sort.Ints(out)
	return out
}

// subtreeStarts returns the first leaf of each subtree of the verifier-side
// decomposition of [start,end) (largest aligned power-of-two blocks).
func subtreeStarts(start, end int) (starts []int) {
	for i := start; i < end; {
		sz := 1
		for i%(sz*2) == 0 && i+sz*2 <= end {
			sz *= 2
		}
		starts = append(starts, i)
		i += sz
	}
	return
}

type sectorOpts struct {
	corrupt bool
	shifts  bool    // window shift corruptions (only meaningful when all leaves differ)
	chunks  [][]int // extra honest verifications through chunked readers
}

const vRPV = "rhp2.RangeProofVerifier"

// ingest feeds data to a fresh verifier for [start,end).
func ingest(start, end int, data []byte, chunk []int) (rpv *rhp2.RangeProofVerifier, n int64, err error) {
	rpv = rhp2.NewRangeProofVerifier(uint64(start), uint64(end))
	n, err = rpv.ReadFrom(mkReader(data, chunk))
	return
}

// verifyCopy runs Verify on a copy of the verifier (Verify consumes the
// ingested subtree roots, so one ingestion can serve many proof variants).
func verifyCopy(rpv *rhp2.RangeProofVerifier, proof []H, root H) bool {
	cp := *rpv
	return cp.Verify(proof, root)
}

func checkSectorRange(e *env, ct *content, start, end int, o sectorOpts) {
	t := newTally()
	defer e.merge(t)
	cs := caseDesc{Family: "sector-range", Content: ct.idx, Name: ct.name, Start: start, End: end}
	w := int64(ct.idx)*1e12 + int64(end)*1e6 + int64(start)
	root := ct.ref.top()
	want := refRangeProof(leavesPerSector, start, end, ct.ref.root)
	us, ue := uint64(start), uint64(end)
	e.c.Distinct("sector-range", ct.idx, start, end)

	cmpProof := func(fn string, got []H) {
		e.evals.Add(1)
		if eqH(got, want) {
			e.c.Count("proofs_equal_reference", 1)
		} else {
			e.violate(fn+"|proof-differs-from-reference|sector-range", fmt.Sprintf("%s returned %d hashes, the canonical proof has %d (or contents differ): %s", fn, len(got), len(want), mustJSON(cs)), w, cs)
		}
	}
	// builders
	var p1, p2, p3 []H
	if pan, msg := try(func() { p1 = rhp2.BuildProof(ct.data, us, ue, nil) }); pan {
		e.violate("rhp2.BuildProof|panics|admissible-range", msg+": "+mustJSON(cs), w, cs)
		return
	}
	cmpProof("rhp2.BuildProof", p1)
	// precalc supplies reference roots for "odd" subtrees only, so both branches run
	badPrecalc := false
	precalc := func(i, j uint64) H {
		sz := j - i
		if sz == 0 || sz&(sz-1) != 0 || i%sz != 0 || j > leavesPerSector {
			badPrecalc = true
			return H{}
		}
		if (i/sz)%2 == 1 {
			return ct.ref.root(int(i), int(j))
		}
		return H{}
	}
	if pan, msg := try(func() { p2 = rhp2.BuildProof(ct.data, us, ue, precalc) }); pan {
		e.violate("rhp2.BuildProof(precalc)|panics|admissible-range", msg+": "+mustJSON(cs), w, cs)
	} else {
		cmpProof("rhp2.BuildProof(precalc)", p2)
		if badPrecalc {
			e.violate("rhp2.BuildProof(precalc)|asks-unaligned-subtree|sector-range", "precalc was called with a range that is not an aligned power-of-two subtree: "+mustJSON(cs), w, cs)
		}
	}
	cache := ct.cache()
	if pan, msg := try(func() {
		ss, se := rhp4.SectorSubtreeRange(us, ue)
		seg := bytes.Clone(ct.data[ss*64 : se*64])
		p3 = rhp4.BuildSectorProof(seg, us, ue, cache)
	}); pan {
		e.violate("rhp4.BuildSectorProof|panics|admissible-range", msg+": "+mustJSON(cs), w, cs)
	} else {
		cmpProof("rhp4.BuildSectorProof", p3)
	}
	e.evals.Add(1)
	if sz := rhp2.RangeProofSize(leavesPerSector, us, ue); sz != uint64(len(want)) {
		e.violate("rhp2.RangeProofSize|wrong-size|sector-range", fmt.Sprintf("RangeProofSize=%d, canonical proof has %d hashes: %s", sz, len(want), mustJSON(cs)), w, cs)
	}

	// honest verification (of the reference proof: builders were compared with it above)
	data := ct.data[start*64 : end*64]
	rpv, n, err := ingest(start, end, data, nil)
	e.evals.Add(1)
	if err != nil || n != int64(len(data)) {
		e.violate(vRPV+".ReadFrom|fails-on-valid-stream|sector-range", fmt.Sprintf("ReadFrom n=%d err=%v want %d: %s", n, err, len(data), mustJSON(cs)), w, cs)
		return
	}
	if !e.expectAccept(t, vRPV, w, cs, func() bool { return verifyCopy(rpv, want, root) }) {
		return
	}
	if p1 != nil && !eqH(p1, want) {
		// still tell whether the verifier accepts what the builder produced
		e.expectAccept(t, vRPV+"(builder output)", w, cs, func() bool { return verifyCopy(rpv, p1, root) })
	}
	// v4 alias
	e.expectAccept(t, "rhp4.RangeProofVerifier", w, cs, func() bool {
		v := rhp4.NewRangeProofVerifier(us, ue)
		if _, err := v.ReadFrom(bytes.NewReader(data)); err != nil {
			return false
		}
		return v.Verify(cloneH(want), root)
	})
	for _, ch := range o.chunks {
		ch := ch
		c2 := cs
		c2.Chunk = ch
		e.c.Distinct("sector-range-chunked", ct.idx, start, end, fmt.Sprint(ch))
		e.expectAccept(t, vRPV+"(chunked reader)", w, c2, func() bool {
			v, n, err := ingest(start, end, data, ch)
			return err == nil && n == int64(len(data)) && v.Verify(cloneH(want), root)
		})
	}
	if end-start == 1 {
		checkLeafProof(e, t, ct, start, want, root, o, cs, w)
	}
	if !o.corrupt {
		return
	}
	// --- corruptions ---
	rej := func(class string, fn func() bool) { e.expectReject(t, vRPV, class, false, w, cs, fn) }
	for i := range want {
		p := cloneH(want)
		p[i] = flipBit(p[i], i)
		rej("proof_hash_bitflip", func() bool { return verifyCopy(rpv, p, root) })
	}
	rej("root_bitflip", func() bool { return verifyCopy(rpv, want, flipBit(root, start+end)) })
	if len(want) > 0 {
		rej("proof_drop_first", func() bool { return verifyCopy(rpv, want[1:], root) })
		rej("proof_drop_last", func() bool { return verifyCopy(rpv, want[:len(want)-1], root) })
	}
	rej("proof_append_hash", func() bool { return verifyCopy(rpv, append(cloneH(want), token(e.seed, "extra", start)), root) })
	// covered data: one bit in the first and last leaf of every subtree of the range
	// (all of them for ranges up to 4096 leaves, else first / middle / last leaf of the range)
	var pos []int
	if end-start <= 4096 {
		ss := subtreeStarts(start, end)
		for k, s := range ss {
			pos = append(pos, s)
			last := end - 1
			if k+1 < len(ss) {
				last = ss[k+1] - 1
			}
			if last != s {
				pos = append(pos, last)
			}
		}
	} else {
		pos = []int{start, (start + end) / 2, end - 1}
	}
	buf := bytes.Clone(data)
	for k, leaf := range pos {
		off := (leaf-start)*64 + (k*11+leaf)%64
		mask := byte(1) << ((k + leaf) % 8)
		buf[off] ^= mask
		e.expectReject(t, vRPV, "datum_bitflip", false, w, cs, func() bool {
			v, _, err := ingest(start, end, buf, nil)
			if err != nil {
				return false
			}
			return v.Verify(cloneH(want), root)
		})
		buf[off] ^= mask
	}
	// truncated data: one byte short (ingestion error) and one leaf short
	e.evals.Add(1)
	if _, _, err := ingest(start, end, data[:len(data)-1], nil); err != nil {
		t.add(vRPV+"|data_truncate_byte", oError, "")
	} else {
		t.add(vRPV+"|data_truncate_byte", oAccepted, "")
		e.violate(vRPV+".ReadFrom|accepts-partial-leaf|data_truncate_byte", "ReadFrom reported no error for data that is not a whole number of leaves: "+mustJSON(cs), w, cs)
	}
	rej("data_truncate_leaf", func() bool {
		v, _, err := ingest(start, end, data[:len(data)-64], nil)
		if err != nil {
			return false
		}
		return v.Verify(cloneH(want), root)
	})
	if o.shifts {
		for _, d := range []int{-1, 1} {
			s2, e2 := start+d, end+d
			class := "window_shift_plus1"
			if d < 0 {
				class = "window_shift_minus1"
			}
			if s2 < 0 {
				continue // start-1 is not representable as a smaller index; see n-ary family for the uint64 wrap
			}
			rej(class, func() bool {
				v := rhp2.NewRangeProofVerifier(uint64(s2), uint64(e2))
				if _, err := v.ReadFrom(bytes.NewReader(data)); err != nil {
					return false
				}
				return v.Verify(cloneH(want), root)
			})
		}
	}
}

// cache returns the 64-leaf subtree roots, computed by the code under test
// (they are compared with the reference in the roots family).
func (ct *content) cache() []H {
	ct.cacheOnce.Do(func() { ct.cacheRoots = rhp4.CachedSectorSubtrees((*[rhp4.SectorSize]byte)(ct.data)) })
	return ct.cacheRoots
}

const vLeaf = "rhp4.VerifyLeafProof"

func checkLeafProof(e *env, t *tally, ct *content, idx int, want []H, root H, o sectorOpts, cs caseDesc, w int64) {
	cs.Family = "leaf-proof"
	var leaf [64]byte
	copy(leaf[:], ct.data[idx*64:])
	ui := uint64(idx)
	e.c.Distinct("leaf-proof", ct.idx, idx)
	if !e.expectAccept(t, vLeaf, w, cs, func() bool { return rhp4.VerifyLeafProof(cloneH(want), leaf, ui, root) }) || !o.corrupt {
		return
	}
	rej := func(class string, fn func() bool) { e.expectReject(t, vLeaf, class, false, w, cs, fn) }
	for i := range want {
		p := cloneH(want)
		p[i] = flipBit(p[i], i)
		rej("proof_hash_bitflip", func() bool { return rhp4.VerifyLeafProof(p, leaf, ui, root) })
	}
	for _, b := range []int{0, 63, (idx * 7) % 64} {
		l2 := leaf
		l2[b] ^= 1 << (idx % 8)
		rej("datum_bitflip", func() bool { return rhp4.VerifyLeafProof(cloneH(want), l2, ui, root) })
	}
	rej("root_bitflip", func() bool { return rhp4.VerifyLeafProof(cloneH(want), leaf, ui, flipBit(root, idx)) })
	rej("proof_drop_first", func() bool { return rhp4.VerifyLeafProof(cloneH(want[1:]), leaf, ui, root) })
	rej("proof_drop_last", func() bool { return rhp4.VerifyLeafProof(cloneH(want[:len(want)-1]), leaf, ui, root) })
	rej("proof_append_hash", func() bool {
		return rhp4.VerifyLeafProof(append(cloneH(want), token(e.seed, "extra", idx)), leaf, ui, root)
	})
	if o.shifts {
		rej("window_shift_plus1", func() bool { return rhp4.VerifyLeafProof(cloneH(want), leaf, ui+1, root) })
		rej("window_shift_minus1", func() bool { return rhp4.VerifyLeafProof(cloneH(want), leaf, ui-1, root) }) // wraps for index 0
	}
}

func runSectorProofs(e *env) {
	c := e.c
	cts := getContents(e)
	S := boundarySet()
	c.Set("sector_boundary_set", S)
	type rng struct{ s, e int }
	var ranges []rng
	for _, a := range S {
		for _, b := range S {
			if a < b {
				ranges = append(ranges, rng{a, b})
			}
		}
	}
	// every single leaf at a boundary value (for VerifyLeafProof), if not already a pair of S
	inS := map[int]bool{}
	for _, a := range S {
		inS[a] = true
	}
	for _, a := range S {
		if a < leavesPerSector && !inS[a+1] {
			ranges = append(ranges, rng{a, a + 1})
		}
	}
	// big ranges first for load balance
	sort.SliceStable(ranges, func(i, j int) bool { return ranges[i].e-ranges[i].s > ranges[j].e-ranges[j].s })
	c.Set("sector_ranges_per_content", len(ranges))
	use := cts
	if c.Quick() {
		use = []*content{cts[0], cts[1], cts[2], cts[13]}
		var nm []string
		for _, ct := range use {
			nm = append(nm, ct.name)
		}
		c.Set("quick_tier_sector_proof_contents", nm)
	}
	var chunks [][]int
	for _, k := range chunkSizes {
		chunks = append(chunks, []int{k})
	}
	for _, ct := range use {
		ct := ct
		o := sectorOpts{corrupt: true, shifts: ct.distinct}
		if ct.idx == 0 {
			o.chunks = chunks
		}
		done := c.Counter("sector_ranges_done")
		vf.ParallelFor(len(ranges), func(i int) {
			if c.Expired() {
				return
			}
			checkSectorRange(e, ct, ranges[i].s, ranges[i].e, o)
			done.Add(1)
		})
		if c.Expired() {
			break
		}
	}
	e.note("sector_ranges", c.Get("sector_ranges_done"))
}
