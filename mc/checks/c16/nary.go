package c16

import (
	"fmt"
	"math/bits"

	rhp2 "go.sia.tech/core/rhp/v2"
	rhp4 "go.sia.tech/core/rhp/v4"
	"verifmc/vf"
)

// listRef is a read-only memo of refRoot(tokens[i:j]) for all 0<=i<j<=N,
// filled sequentially before any parallel use.
var listRef *refList

func getListRef(e *env, n int) *refList {
	if listRef == nil || len(listRef.leaves) < n {
		l := newRefList(tokens(e, n))
		for i := 0; i < n; i++ {
			for j := i + 1; j <= n; j++ {
				l.root(i, j)
			}
		}
		listRef = l
	}
	return listRef
}

// ---------------- n-ary range proofs ----------------

type rangeVerifier struct {
	name   string
	build  func(list []H, start, end uint64) []H
	verify func(proof, data []H, start, end, n uint64, root H) bool
}

var rangeVerifiers = []rangeVerifier{
	{"rhp2.VerifySectorRangeProof", rhp2.BuildSectorRangeProof,
		func(p, d []H, s, e, n uint64, r H) bool { return rhp2.VerifySectorRangeProof(p, d, s, e, n, r) }},
	{"rhp4.VerifySectorRootsProof", rhp4.BuildSectorRootsProof,
		func(p, d []H, s, e, n uint64, r H) bool { return rhp4.VerifySectorRootsProof(p, d, n, s, e, r) }},
}

var rangeBuilderNames = []string{"rhp2.BuildSectorRangeProof", "rhp4.BuildSectorRootsProof"}

func checkNaryRange(e *env, L *refList, n, start, end int, corrupt bool) {
	t := newTally()
	defer e.merge(t)
	cs := caseDesc{Family: "nary-range", N: n, Start: start, End: end}
	w := int64(n)*1e6 + int64(end-start)*1e3 + int64(start)
	list := L.leaves[:n]
	root := L.root(0, n)
	want := refRangeProof(n, start, end, L.root)
	data := list[start:end]
	us, ue, un := uint64(start), uint64(end), uint64(n)
	e.c.Distinct("nary-range", n, start, end)
	e.evals.Add(1)
	if sz := rhp2.RangeProofSize(un, us, ue); sz != uint64(len(want)) {
		e.violate("rhp2.RangeProofSize|wrong-size|nary-range", fmt.Sprintf("RangeProofSize(%d,%d,%d)=%d, canonical proof has %d hashes", n, start, end, sz, len(want)), w, cs)
	}
	for vi, v := range rangeVerifiers {
		v := v
		var got []H
		e.evals.Add(1)
		if pan, msg := try(func() { got = v.build(cloneH(list), us, ue) }); pan {
			e.violate(rangeBuilderNames[vi]+"|panics|admissible-range", msg+": "+mustJSON(cs), w, cs)
		} else if !eqH(got, want) {
			e.violate(rangeBuilderNames[vi]+"|proof-differs-from-reference|nary-range", fmt.Sprintf("builder returned %d hashes, canonical proof has %d (or contents differ): %s", len(got), len(want), mustJSON(cs)), w, cs)
			e.expectAccept(t, v.name+"(builder output)", w, cs, func() bool { return v.verify(cloneH(got), cloneH(data), us, ue, un, root) })
		} else {
			e.c.Count("proofs_equal_reference", 1)
		}
		if !e.expectAccept(t, v.name, w, cs, func() bool { return v.verify(cloneH(want), cloneH(data), us, ue, un, root) }) || !corrupt {
			continue
		}
		rej := func(class string, fn func() bool) { e.expectReject(t, v.name, class, false, w, cs, fn) }
		for i := range want {
			p := cloneH(want)
			p[i] = flipBit(p[i], i)
			rej("proof_hash_bitflip", func() bool { return v.verify(p, cloneH(data), us, ue, un, root) })
		}
		for i := range data {
			d := cloneH(data)
			d[i] = flipBit(d[i], i+start)
			rej("datum_bitflip", func() bool { return v.verify(cloneH(want), d, us, ue, un, root) })
		}
		rej("root_bitflip", func() bool { return v.verify(cloneH(want), cloneH(data), us, ue, un, flipBit(root, n)) })
		rej("window_shift_plus1", func() bool { return v.verify(cloneH(want), cloneH(data), us+1, ue+1, un, root) })
		rej("window_shift_minus1", func() bool { return v.verify(cloneH(want), cloneH(data), us-1, ue-1, un, root) })
		if len(want) > 0 {
			rej("proof_drop_first", func() bool { return v.verify(cloneH(want[1:]), cloneH(data), us, ue, un, root) })
			rej("proof_drop_last", func() bool { return v.verify(cloneH(want[:len(want)-1]), cloneH(data), us, ue, un, root) })
		}
		rej("proof_append_hash", func() bool {
			return v.verify(append(cloneH(want), token(e.seed, "extra", n)), cloneH(data), us, ue, un, root)
		})
	}
}

// ---------------- append proofs ----------------

const (
	vApp4 = "rhp4.VerifyAppendSectorsProof"
	vApp2 = "rhp2.VerifyAppendProof"
)

func checkAppend(e *env, L *refList, n, batch int, corrupt bool) {
	t := newTally()
	defer e.merge(t)
	cs := caseDesc{Family: "append", N: n, Batch: batch}
	w := int64(n)*1e3 + int64(batch)
	list := L.leaves[:n]
	app := make([]H, batch)
	for i := range app {
		app[i] = token(e.seed, "app", n*8+i)
	}
	oldRoot := L.root(0, n)
	newRoot := refRoot(append(cloneH(list), app...))
	want := refAppendProof(n, L.root)
	un := uint64(n)
	e.c.Distinct("append", n, batch)

	var got []H
	var gotRoot H
	e.evals.Add(1)
	if pan, msg := try(func() { got, gotRoot = rhp4.BuildAppendProof(cloneH(list), cloneH(app)) }); pan {
		e.violate("rhp4.BuildAppendProof|panics|admissible-append", msg+": "+mustJSON(cs), w, cs)
	} else {
		if !eqH(got, want) {
			e.violate("rhp4.BuildAppendProof|proof-differs-from-reference|append", fmt.Sprintf("builder returned %d hashes, reference %d (or contents differ): %s", len(got), len(want), mustJSON(cs)), w, cs)
		} else {
			e.c.Count("proofs_equal_reference", 1)
		}
		e.cmpRoot("rhp4.BuildAppendProof(new root)", "default", gotRoot, newRoot, w, cs)
	}

	type av struct {
		name   string
		verify func(proof, app []H, oldRoot, newRoot H) bool
	}
	vs := []av{{vApp4, func(p, a []H, o, nw H) bool { return rhp4.VerifyAppendSectorsProof(un, p, a, o, nw) }}}
	if batch == 1 {
		vs = append(vs, av{vApp2, func(p, a []H, o, nw H) bool { return rhp2.VerifyAppendProof(un, p, a[0], o, nw) }})
	}
	for _, v := range vs {
		v := v
		if !e.expectAccept(t, v.name, w, cs, func() bool { return v.verify(cloneH(want), cloneH(app), oldRoot, newRoot) }) || !corrupt {
			continue
		}
		rej := func(class string, allowed bool, fn func() bool) { e.expectReject(t, v.name, class, allowed, w, cs, fn) }
		for i := range want {
			p := cloneH(want)
			p[i] = flipBit(p[i], i)
			rej("proof_hash_bitflip", false, func() bool { return v.verify(p, cloneH(app), oldRoot, newRoot) })
		}
		for i := range app {
			a := cloneH(app)
			a[i] = flipBit(a[i], i)
			rej("datum_bitflip", false, func() bool { return v.verify(cloneH(want), a, oldRoot, newRoot) })
		}
		rej("old_root_bitflip", false, func() bool { return v.verify(cloneH(want), cloneH(app), flipBit(oldRoot, n), newRoot) })
		rej("new_root_bitflip", false, func() bool { return v.verify(cloneH(want), cloneH(app), oldRoot, flipBit(newRoot, n)) })
		if len(want) > 0 {
			rej("proof_drop_first", false, func() bool { return v.verify(cloneH(want[1:]), cloneH(app), oldRoot, newRoot) })
			rej("proof_drop_last", false, func() bool { return v.verify(cloneH(want[:len(want)-1]), cloneH(app), oldRoot, newRoot) })
		}
		// the append verifiers consume exactly popcount(n) hashes and ignore the rest: they do not fix the length
		rej("proof_append_hash(length not fixed)", true, func() bool {
			return v.verify(append(cloneH(want), token(e.seed, "extra", n)), cloneH(app), oldRoot, newRoot)
		})
	}
}

// ---------------- diff / free proofs ----------------

const (
	vDiff = "rhp2.VerifyDiffProof"
	vFree = "rhp4.VerifyFreeSectorsProof"
)

func toRHP2(acts []action, appendData bool) []rhp2.RPCWriteAction {
	var out []rhp2.RPCWriteAction
	for _, a := range acts {
		switch a.Op {
		case "append":
			out = append(out, rhp2.RPCWriteAction{Type: rhp2.RPCWriteActionAppend})
		case "trim":
			out = append(out, rhp2.RPCWriteAction{Type: rhp2.RPCWriteActionTrim, A: uint64(a.A)})
		case "swap":
			out = append(out, rhp2.RPCWriteAction{Type: rhp2.RPCWriteActionSwap, A: uint64(a.A), B: uint64(a.B)})
		}
	}
	return out
}

func u64s(xs []int, d int) []uint64 {
	out := make([]uint64, len(xs))
	for i, x := range xs {
		out[i] = uint64(x + d) // wraps for -1, deliberately
	}
	return out
}

// diffCorruptions applies the corruption menu shared by the diff and free verifiers.
func diffCorruptions(e *env, t *tally, name string, w int64, cs caseDesc, tree, leaf []H, oldRoot, newRoot H, n int,
	verify func(tree, leaf []H, oldRoot, newRoot H) bool) {
	rej := func(class string, fn func() bool) { e.expectReject(t, name, class, false, w, cs, fn) }
	for i := range tree {
		p := cloneH(tree)
		p[i] = flipBit(p[i], i)
		rej("proof_hash_bitflip", func() bool { return verify(p, cloneH(leaf), oldRoot, newRoot) })
	}
	for i := range leaf {
		p := cloneH(leaf)
		p[i] = flipBit(p[i], i+n)
		rej("datum_bitflip(old leaf hash)", func() bool { return verify(cloneH(tree), p, oldRoot, newRoot) })
	}
	rej("old_root_bitflip", func() bool { return verify(cloneH(tree), cloneH(leaf), flipBit(oldRoot, n), newRoot) })
	rej("new_root_bitflip", func() bool { return verify(cloneH(tree), cloneH(leaf), oldRoot, flipBit(newRoot, n)) })
	if len(tree) > 0 {
		rej("proof_drop_first", func() bool { return verify(cloneH(tree[1:]), cloneH(leaf), oldRoot, newRoot) })
		rej("proof_drop_last", func() bool { return verify(cloneH(tree[:len(tree)-1]), cloneH(leaf), oldRoot, newRoot) })
	}
	if len(leaf) > 0 {
		rej("leaf_drop_first", func() bool { return verify(cloneH(tree), cloneH(leaf[1:]), oldRoot, newRoot) })
		rej("leaf_drop_last", func() bool { return verify(cloneH(tree), cloneH(leaf[:len(leaf)-1]), oldRoot, newRoot) })
	}
	x := token(e.seed, "extra", n)
	rej("proof_append_hash", func() bool { return verify(append(cloneH(tree), x), cloneH(leaf), oldRoot, newRoot) })
	rej("leaf_append_hash", func() bool { return verify(cloneH(tree), append(cloneH(leaf), x), oldRoot, newRoot) })
}

func checkFree(e *env, L *refList, n int, freed []int, corrupt bool) {
	t := newTally()
	defer e.merge(t)
	cs := caseDesc{Family: "free", N: n, Freed: freed}
	w := int64(n)*1e6 + int64(len(freed))*1e4
	for _, f := range freed {
		w += int64(f)
	}
	list := L.leaves[:n]
	acts := freeActions(n, freed)
	after, touched := refApply(list, acts, nil)
	oldRoot, newRoot := L.root(0, n), refRoot(after)
	tree, leaf := refDiffProof(n, touched, L.root)
	a2 := toRHP2(acts, false)
	f64 := u64s(freed, 0)
	un := uint64(n)
	e.c.Distinct("free", n, fmt.Sprint(freed))

	// does swap-then-trim remove exactly the freed set? (observation, not an oracle)
	removed := map[H]bool{}
	for _, h := range list {
		removed[h] = true
	}
	for _, h := range after {
		delete(removed, h)
	}
	for _, f := range freed {
		if !removed[list[f]] {
			e.note("free_orders_where_removed_set_differs_from_freed_set", 1)
			break
		}
	}

	cmp := func(fn string, gt, gl []H) {
		e.evals.Add(1)
		if eqH(gt, tree) && eqH(gl, leaf) {
			e.c.Count("proofs_equal_reference", 1)
		} else {
			e.violate(fn+"|proof-differs-from-reference|free", fmt.Sprintf("%s returned %d tree + %d leaf hashes, canonical proof has %d + %d (or contents differ): %s", fn, len(gt), len(gl), len(tree), len(leaf), mustJSON(cs)), w, cs)
		}
	}
	var gt, gl []H
	if pan, msg := try(func() { gt, gl = rhp2.BuildDiffProof(a2, cloneH(list)) }); pan {
		e.violate("rhp2.BuildDiffProof|panics|free", msg+": "+mustJSON(cs), w, cs)
	} else {
		cmp("rhp2.BuildDiffProof", gt, gl)
	}
	if pan, msg := try(func() { gt, gl = rhp4.BuildFreeSectorsProof(cloneH(list), f64) }); pan {
		e.violate("rhp4.BuildFreeSectorsProof|panics|free", msg+": "+mustJSON(cs), w, cs)
	} else {
		cmp("rhp4.BuildFreeSectorsProof", gt, gl)
	}
	e.evals.Add(1)
	if sz := rhp2.DiffProofSize(a2, un); sz != uint64(len(tree)+len(leaf)) {
		e.violate("rhp2.DiffProofSize|wrong-size|free", fmt.Sprintf("DiffProofSize=%d, canonical proof has %d hashes: %s", sz, len(tree)+len(leaf), mustJSON(cs)), w, cs)
	}

	vDiffFn := func(tr, lf []H, o, nw H) bool { return rhp2.VerifyDiffProof(a2, un, tr, lf, o, nw, nil) }
	vFreeFn := func(tr, lf []H, o, nw H) bool { return rhp4.VerifyFreeSectorsProof(tr, lf, f64, un, o, nw) }
	if e.expectAccept(t, vDiff, w, cs, func() bool { return vDiffFn(cloneH(tree), cloneH(leaf), oldRoot, newRoot) }) && corrupt {
		diffCorruptions(e, t, vDiff, w, cs, tree, leaf, oldRoot, newRoot, n, vDiffFn)
	}
	if e.expectAccept(t, vFree, w, cs, func() bool { return vFreeFn(cloneH(tree), cloneH(leaf), oldRoot, newRoot) }) && corrupt {
		diffCorruptions(e, t, vFree, w, cs, tree, leaf, oldRoot, newRoot, n, vFreeFn)
	}
	if !corrupt {
		return
	}
	// index corruptions, proof and roots unchanged: every freed index shifted by +-1,
	// and each single freed index shifted by +-1 (skipped when it would duplicate another index)
	var variants [][]int
	var classes []string
	for _, d := range []int{-1, 1} {
		sh := make([]int, len(freed))
		for i, f := range freed {
			sh[i] = f + d
		}
		variants, classes = append(variants, sh), append(classes, fmt.Sprintf("index_shift_all_%+d", d))
		if len(freed) > 1 {
			for k := range freed {
				one := append([]int(nil), freed...)
				one[k] += d
				dup := false
				for i, f := range freed {
					if i != k && f == one[k] {
						dup = true
					}
				}
				if !dup {
					variants, classes = append(variants, one), append(classes, fmt.Sprintf("index_shift_one_%+d", d))
				}
			}
		}
	}
	if len(freed) == 1 {
		// a single freed index replaced by EVERY other index
		for g := 0; g < n; g++ {
			if g != freed[0] && g != freed[0]-1 && g != freed[0]+1 {
				variants, classes = append(variants, []int{g}), append(classes, "index_replace")
			}
		}
	}
	for vi, sh := range variants {
		class := classes[vi]
		inRange := true
		for _, f := range sh {
			if f < 0 || f >= n {
				class += "(out of range)"
				inRange = false
				break
			}
		}
		if inRange {
			// the altered claim must be FALSE to count as a corruption: different orders/indices
			// can denote the same swap-then-trim result (e.g. n=3: [0,1] and [0,2] both leave [r2])
			if af, _ := refApply(list, freeActions(n, sh), nil); refRoot(af) == newRoot {
				e.note("index_corruptions_skipped(altered indices give the same new root)", 1)
				continue
			}
		}
		sh64 := u64s(sh, 0)
		c2 := cs
		c2.Detail = fmt.Sprintf("verifier given freed=%v", sh)
		e.expectReject(t, vFree, class, false, w, c2, func() bool {
			return rhp4.VerifyFreeSectorsProof(cloneH(tree), cloneH(leaf), sh64, un, oldRoot, newRoot)
		})
		sa := toRHP2(freeActions(n, sh), false)
		for i := range sa {
			if sa[i].Type == rhp2.RPCWriteActionSwap {
				sa[i].A = sh64[i] // keep the uint64 wrap of -1
			}
		}
		e.expectReject(t, vDiff, class, false, w, c2, func() bool {
			return rhp2.VerifyDiffProof(sa, un, cloneH(tree), cloneH(leaf), oldRoot, newRoot, nil)
		})
	}
}

// checkActions: a general sequence of RHP2 write actions (append/trim/swap).
func checkActions(e *env, L *refList, n int, acts []action, corrupt bool) {
	t := newTally()
	defer e.merge(t)
	cs := caseDesc{Family: "actions", N: n, Actions: acts}
	w := int64(n)*1e6 + int64(len(acts))*1e4
	var app []H
	for i, a := range acts {
		w += int64(a.A + a.B)
		if a.Op == "append" {
			app = append(app, token(e.seed, "app", n*8+i))
		}
	}
	list := L.leaves[:n]
	after, touched := refApply(list, acts, app)
	oldRoot, newRoot := L.root(0, n), refRoot(after)
	tree, leaf := refDiffProof(n, touched, L.root)
	a2 := toRHP2(acts, false)
	un := uint64(n)
	e.c.Distinct("actions", n, fmt.Sprint(acts))
	var gt, gl []H
	e.evals.Add(2)
	if pan, msg := try(func() { gt, gl = rhp2.BuildDiffProof(a2, cloneH(list)) }); pan {
		e.violate("rhp2.BuildDiffProof|panics|actions", msg+": "+mustJSON(cs), w, cs)
	} else if eqH(gt, tree) && eqH(gl, leaf) {
		e.c.Count("proofs_equal_reference", 1)
	} else {
		e.violate("rhp2.BuildDiffProof|proof-differs-from-reference|actions", fmt.Sprintf("builder returned %d tree + %d leaf hashes, canonical proof has %d + %d (or contents differ): %s", len(gt), len(gl), len(tree), len(leaf), mustJSON(cs)), w, cs)
	}
	if sz := rhp2.DiffProofSize(a2, un); sz != uint64(len(tree)+len(leaf)) {
		e.violate("rhp2.DiffProofSize|wrong-size|actions", fmt.Sprintf("DiffProofSize=%d, canonical proof has %d hashes: %s", sz, len(tree)+len(leaf), mustJSON(cs)), w, cs)
	}
	name := vDiff + "(actions)"
	verify := func(tr, lf []H, o, nw H) bool { return rhp2.VerifyDiffProof(a2, un, tr, lf, o, nw, cloneH(app)) }
	if e.expectAccept(t, name, w, cs, func() bool { return verify(cloneH(tree), cloneH(leaf), oldRoot, newRoot) }) && corrupt {
		diffCorruptions(e, t, name, w, cs, tree, leaf, oldRoot, newRoot, n, verify)
		for i := range app {
			a := cloneH(app)
			a[i] = flipBit(a[i], i)
			if af, _ := refApply(list, acts, a); refRoot(af) == newRoot {
				e.note("appended_root_corruptions_without_effect(trimmed again)", 1)
				continue // the appended sector is trimmed again: the altered datum is not covered by the new root
			}
			e.expectReject(t, name, "datum_bitflip(appended root)", false, w, cs, func() bool {
				return rhp2.VerifyDiffProof(a2, un, cloneH(tree), cloneH(leaf), oldRoot, newRoot, a)
			})
		}
	}
}

// enumActions enumerates every admissible action sequence of length 1..maxLen from count n.
func enumActions(n, maxLen int, emit func([]action)) {
	var rec func(m int, cur []action)
	rec = func(m int, cur []action) {
		if len(cur) > 0 {
			emit(append([]action(nil), cur...))
		}
		if len(cur) == maxLen {
			return
		}
		rec(m+1, append(cur, action{Op: "append"}))
		for k := 1; k <= 2 && k <= m; k++ {
			rec(m-k, append(cur, action{Op: "trim", A: k}))
		}
		for a := 0; a < m; a++ {
			for b := a; b < m; b++ {
				rec(m, append(cur, action{Op: "swap", A: a, B: b}))
			}
		}
	}
	rec(n, nil)
}

// permutations of xs in lexicographic order of positions.
func permutations(xs []int, emit func([]int)) {
	var rec func(k int)
	p := append([]int(nil), xs...)
	rec = func(k int) {
		if k == len(p) {
			emit(append([]int(nil), p...))
			return
		}
		for i := k; i < len(p); i++ {
			p[k], p[i] = p[i], p[k]
			rec(k + 1)
			p[k], p[i] = p[i], p[k]
		}
	}
	rec(0)
}

func runNary(e *env) {
	c := e.c
	N := vf.Pick(c, 33, 130)
	M := vf.Pick(c, 14, 18)
	AN := vf.Pick(c, 5, 7)
	AL := vf.Pick(c, 2, 3)
	c.Set("bounds", map[string]int{"range_and_append_max_n": N, "free_max_n": M, "actions_max_n": AN, "actions_max_len": AL, "append_max_batch": 5})
	L := getListRef(e, N+1)
	e.lap("nary.start")

	// ranges: tasks (n,start), largest n first
	type ns struct{ n, s int }
	var tasks []ns
	for n := N; n >= 1; n-- {
		for s := 0; s < n; s++ {
			tasks = append(tasks, ns{n, s})
		}
	}
	rangesDone := c.Counter("nary_ranges_done")
	completedN := make([]int64, N+1)
	_ = completedN
	vf.ParallelFor(len(tasks), func(i int) {
		if c.Expired() {
			return
		}
		tk := tasks[i]
		for end := tk.s + 1; end <= tk.n; end++ {
			checkNaryRange(e, L, tk.n, tk.s, end, true)
			rangesDone.Add(1)
		}
	})
	e.note("nary_ranges", rangesDone.Load())
	e.lap("nary.ranges")

	// appends
	appDone := c.Counter("append_cases_done")
	vf.ParallelFor(N+1, func(n int) {
		for b := 1; b <= 5; b++ {
			checkAppend(e, L, n, b, true)
			appDone.Add(1)
		}
	})
	e.note("append_cases", appDone.Load())
	e.lap("nary.append")

	// free: every non-empty subset, every order for subsets of size <= 3
	freeDone := c.Counter("free_cases_done")
	subsets := c.Counter("free_subsets_done")
	maxFreeN := 0
	for n := 1; n <= M && !c.Expired(); n++ {
		n := n
		total := 1<<n - 1
		const blk = 64
		vf.ParallelFor((total+blk-1)/blk, func(bi int) {
			if c.Expired() {
				return
			}
			for mask := bi*blk + 1; mask <= total && mask <= (bi+1)*blk; mask++ {
				var freed []int
				for i := 0; i < n; i++ {
					if mask&(1<<i) != 0 {
						freed = append(freed, i)
					}
				}
				subsets.Add(1)
				if bits.OnesCount(uint(mask)) <= 3 {
					permutations(freed, func(p []int) {
						checkFree(e, L, n, p, true)
						freeDone.Add(1)
					})
				} else {
					checkFree(e, L, n, freed, true)
					freeDone.Add(1)
				}
			}
		})
		if !c.Expired() {
			maxFreeN = n
		}
	}
	c.Set("free_max_n_completed", maxFreeN)
	e.note("free_subsets", subsets.Load())
	e.note("free_orders", freeDone.Load())
	e.lap("nary.free")

	// general v2 action sequences
	var seqs []struct {
		n    int
		acts []action
	}
	for n := 0; n <= AN; n++ {
		n := n
		enumActions(n, AL, func(a []action) {
			seqs = append(seqs, struct {
				n    int
				acts []action
			}{n, a})
		})
	}
	actDone := c.Counter("action_sequences_done")
	vf.ParallelFor(len(seqs), func(i int) {
		if c.Expired() {
			return
		}
		checkActions(e, L, seqs[i].n, seqs[i].acts, true)
		actDone.Add(1)
	})
	e.note("action_sequences", actDone.Load())
}

func replayCase(e *env, d caseDesc) {
	switch d.Family {
	case "nary-range":
		checkNaryRange(e, getListRef(e, d.N+1), d.N, d.Start, d.End, true)
	case "append":
		checkAppend(e, getListRef(e, d.N+1), d.N, d.Batch, true)
	case "free":
		checkFree(e, getListRef(e, d.N+1), d.N, d.Freed, true)
	case "actions":
		checkActions(e, getListRef(e, d.N+8), d.N, d.Actions, true)
	case "sector-range", "leaf-proof":
		ct := buildContent(e.seed, d.Content)
		o := sectorOpts{corrupt: true, shifts: ct.distinct}
		if len(d.Chunk) > 0 {
			o.chunks = [][]int{d.Chunk}
		}
		checkSectorRange(e, ct, d.Start, d.End, o)
	default:
		replayRoots(e, d)
	}
}
