// Package c16: RHP Merkle roots and proofs are complete, sound and
// implementation-independent. Bounded exhaustive enumeration of inputs,
// ranges, subsets and single-point corruptions against a naive recursive
// reference Merkle tree (ref.go).
package c16

import (
	"encoding/json"
	"fmt"
	"runtime"
	"sort"
	"strings"
	"sync"
	"sync/atomic"
	"time"

	"verifmc/vf"
)

func init() {
	vf.Register(&vf.Check{ID: "C16", Level: "exploration", Run: run, Replay: replay})
}

// outcome of one verifier call.
const (
	oAccepted = iota
	oRejected
	oError        // streaming verifier returned an error while ingesting data
	oPanicString  // explicit panic("...") / panic(error): a precondition panic
	oPanicRuntime // runtime.Error (index out of range, slice bounds, nil deref ...)
	nOutcomes
)

var outcomeNames = [nOutcomes]string{"accepted", "rejected", "rejected_error", "panic_precondition", "panic_runtime"}

type violRec struct {
	desc   string
	weight int64
	cs     any
	count  int64
}

// env collects statistics and keeps the minimal case per violation signature.
type env struct {
	c     *vf.Ctx
	seed  int64
	evals *atomic.Int64

	mu     sync.Mutex
	stats  map[string]*[nOutcomes]int64 // "<verifier>|<corruption class>" -> outcome histogram
	viol   map[string]*violRec
	panics map[string]string // "<verifier>|<class>|<kind>" -> sample message
	notes  map[string]int64
	lapT   time.Time
	laps   map[string]float64
}

func (e *env) lap(name string) {
	now := time.Now()
	if e.laps == nil {
		e.laps = map[string]float64{}
	}
	if !e.lapT.IsZero() {
		e.laps[name] = now.Sub(e.lapT).Seconds()
	}
	e.lapT = now
}

func newEnv(c *vf.Ctx) *env {
	return &env{c: c, seed: c.Seed, evals: c.Counter("evaluations"), stats: map[string]*[nOutcomes]int64{},
		viol: map[string]*violRec{}, panics: map[string]string{}, notes: map[string]int64{}}
}

// tally is a per-case local histogram merged into env at the end of the case.
type tally struct {
	m      map[string]*[nOutcomes]int64
	panics map[string]string
}

func newTally() *tally { return &tally{m: map[string]*[nOutcomes]int64{}} }

func (t *tally) add(key string, o int, msg string) {
	a := t.m[key]
	if a == nil {
		a = new([nOutcomes]int64)
		t.m[key] = a
	}
	a[o]++
	if o == oPanicString || o == oPanicRuntime {
		if t.panics == nil {
			t.panics = map[string]string{}
		}
		k := key + "|" + outcomeNames[o]
		if _, ok := t.panics[k]; !ok {
			t.panics[k] = msg
		}
	}
}

func (e *env) merge(t *tally) {
	e.mu.Lock()
	defer e.mu.Unlock()
	for k, a := range t.m {
		b := e.stats[k]
		if b == nil {
			b = new([nOutcomes]int64)
			e.stats[k] = b
		}
		for i := range a {
			b[i] += a[i]
		}
	}
	for k, v := range t.panics {
		if _, ok := e.panics[k]; !ok {
			e.panics[k] = v
		}
	}
}

func (e *env) note(k string, n int64) {
	e.mu.Lock()
	e.notes[k] += n
	e.mu.Unlock()
}

// violate records a violation, keeping the case of minimal weight per signature.
func (e *env) violate(sig, desc string, weight int64, cs any) {
	e.mu.Lock()
	defer e.mu.Unlock()
	v := e.viol[sig]
	if v == nil {
		e.viol[sig] = &violRec{desc: desc, weight: weight, cs: cs, count: 1}
		return
	}
	v.count++
	if weight < v.weight {
		v.desc, v.weight, v.cs = desc, weight, cs
	}
}

// flush hands the minimal case of every signature to the framework.
func (e *env) flush() {
	e.mu.Lock()
	defer e.mu.Unlock()
	sigs := make([]string, 0, len(e.viol))
	for s := range e.viol {
		sigs = append(sigs, s)
	}
	sort.Strings(sigs)
	for _, s := range sigs {
		v := e.viol[s]
		e.c.Violate(s, fmt.Sprintf("%s (minimal of %d occurrence(s) in this run)", v.desc, v.count), v.cs)
	}
}

// call runs a verifier and classifies the result.
func call(fn func() bool) (o int, msg string) {
	defer func() {
		if r := recover(); r != nil {
			msg = fmt.Sprint(r)
			if _, ok := r.(runtime.Error); ok {
				o = oPanicRuntime
			} else {
				o = oPanicString
			}
		}
	}()
	if fn() {
		return oAccepted, ""
	}
	return oRejected, ""
}

// expectReject runs one corrupted verification: anything but acceptance is a
// rejection (panics are counted separately). allowed=true marks corruption
// classes where acceptance is not a violation (longer proof on a verifier
// that does not fix the length).
func (e *env) expectReject(t *tally, verifier, class string, allowed bool, weight int64, cs any, fn func() bool) {
	e.evals.Add(1)
	o, msg := call(fn)
	t.add(verifier+"|"+class, o, msg)
	if o == oAccepted && !allowed {
		e.violate(verifier+"|accepts-corrupted|"+class,
			fmt.Sprintf("%s accepted a %s corruption of an honest proof with the true element count: %s", verifier, class, mustJSON(cs)), weight, cs)
	}
}

// expectAccept runs one honest verification.
func (e *env) expectAccept(t *tally, verifier string, weight int64, cs any, fn func() bool) bool {
	e.evals.Add(1)
	o, msg := call(fn)
	t.add(verifier+"|honest", o, msg)
	if o != oAccepted {
		e.violate(verifier+"|rejects-honest|"+outcomeNames[o],
			fmt.Sprintf("%s did not accept the honest proof (%s %s): %s", verifier, outcomeNames[o], msg, mustJSON(cs)), weight, cs)
		return false
	}
	return true
}

func mustJSON(v any) string {
	b, err := json.Marshal(v)
	if err != nil {
		return fmt.Sprintf("%+v", v)
	}
	return string(b)
}

func flipBit(h H, i int) H {
	b := (i*37 + 5) % 256
	h[b/8] ^= 1 << (b % 8)
	return h
}

func cloneH(hs []H) []H { return append([]H{}, hs...) }

func eqH(a, b []H) bool {
	if len(a) != len(b) {
		return false
	}
	for i := range a {
		if a[i] != b[i] {
			return false
		}
	}
	return true
}

// try runs a builder; a panic is reported as a violation by the caller.
func try(fn func()) (panicked bool, msg string) {
	p, _ := vf.Try(fn)
	if p != nil {
		return true, fmt.Sprint(p)
	}
	return false, ""
}

// caseDesc is the replayable descriptor of one case.
type caseDesc struct {
	Family  string   `json:"family"`
	Path    string   `json:"cpu_path,omitempty"`
	Content int      `json:"content,omitempty"`
	Name    string   `json:"name,omitempty"`
	N       int      `json:"n,omitempty"`
	Start   int      `json:"start,omitempty"`
	End     int      `json:"end,omitempty"`
	Batch   int      `json:"batch,omitempty"`
	Freed   []int    `json:"freed,omitempty"`
	Actions []action `json:"actions,omitempty"`
	Chunk   []int    `json:"chunk,omitempty"`
	Func    string   `json:"func,omitempty"`
	Detail  string   `json:"detail,omitempty"`
}

func run(c *vf.Ctx) {
	e := newEnv(c)
	c.Set("rule", strings.Join([]string{
		"E2 bounded exhaustive enumeration, no sampling.",
		"roots: every single-bit input and lane-distinct inputs of SumLeaf/SumPair/SumLeaves/SumNodes on each CPU path; a fixed family of sector contents x every root function x every reader chunking; MetaRoot/Accumulator for every n in the bound.",
		"sector range proofs: every (start,end), start<end, both in the bit-boundary set S, per content.",
		"n-ary: every n<=N and every 0<=start<end<=n; every n<=N x batch 1..5; every n<=M x every non-empty subset of freed indices (ascending) plus every permutation of subsets of size<=3; every short sequence of v2 write actions.",
		"for each honest tuple every single-point corruption of the menu (one bit per proof hash / covered datum / root, window shift +-1, drop first/last, append one).",
		"a case is distinct/non-trivial per (family, content or n, range / subset order / batch / action list / input bit); corruptions are counted in per_verifier_outcomes but not in distinct_nontrivial.",
	}, " "))
	phase := map[string]float64{} // informational only, never an oracle
	t0 := time.Now()
	lap := func(name string) { phase[name] = time.Since(t0).Seconds(); t0 = time.Now() }
	runRoots(e)
	lap("roots")
	if !c.Expired() {
		runSectorProofs(e)
		lap("sector_proofs")
	}
	if !c.Expired() {
		runNary(e)
		lap("nary")
	}
	for k, v := range e.laps {
		phase[k] = v
	}
	c.Set("phase_wall_s(informational)", phase)
	e.samples()
	e.flush()
	e.report()
}

// samples writes out a few of the explored cases with their actual values.
func (e *env) samples() {
	c := e.c
	L := getListRef(e, 34)
	hx := func(h H) string { return fmt.Sprintf("%x", h[:]) }
	{
		n, freed := 6, []int{4}
		after, touched := refApply(L.leaves[:n], freeActions(n, freed), nil)
		tree, leaf := refDiffProof(n, touched, L.root)
		c.Sample(map[string]any{"family": "free", "n": n, "freed": freed, "touched": touched, "tree_hashes": len(tree), "leaf_hashes": len(leaf),
			"old_root": hx(L.root(0, n)), "new_root": hx(refRoot(after)), "corruptions": "each tree/leaf hash bit, old/new root bit, indices +-1, drop first/last, append one"})
	}
	{
		n, s, en := 13, 5, 11
		p := refRangeProof(n, s, en, L.root)
		c.Sample(map[string]any{"family": "nary-range", "n": n, "start": s, "end": en, "proof_hashes": len(p), "root": hx(L.root(0, n)), "first_proof_hash": hx(p[0])})
	}
	{
		n := 11
		p := refAppendProof(n, L.root)
		c.Sample(map[string]any{"family": "append", "n": n, "batch": 3, "proof_hashes": len(p), "old_root": hx(L.root(0, n))})
	}
	if len(contents) > 0 {
		ct := contents[0]
		p := refRangeProof(leavesPerSector, 63, 4097, ct.ref.root)
		c.Sample(map[string]any{"family": "sector-range", "content": ct.name, "start": 63, "end": 4097, "proof_hashes": len(p), "sector_root": hx(ct.ref.top()),
			"chunked_readers": chunkSizes})
		c.Sample(map[string]any{"family": "sector-reader", "content": contents[len(contents)-1].name, "func": "rhp2.ReadSector", "chunk": []int{65}, "cpu_path": "generic",
			"sector_root": hx(contents[len(contents)-1].ref.top())})
	}
	c.Sample(map[string]any{"family": "prim", "func": "blake2b.SumNodes", "input": "bit 777 of the 2048 input bits set", "cpu_paths": cpuPaths()})
	c.Sample(map[string]any{"family": "actions", "n": 3, "actions": []action{{Op: "append"}, {Op: "swap", A: 0, B: 3}, {Op: "trim", A: 1}}})
}

// report writes the per-family histograms into the evidence.
func (e *env) report() {
	c := e.c
	e.mu.Lock()
	defer e.mu.Unlock()
	per := map[string]map[string]int64{}
	var tot [nOutcomes]int64
	var honestAcc, corrRej, corrPanic, corrAccAllowed int64
	for k, a := range e.stats {
		m := map[string]int64{}
		for i, n := range a {
			if n != 0 {
				m[outcomeNames[i]] = n
			}
			tot[i] += n
		}
		per[k] = m
		if strings.HasSuffix(k, "|honest") {
			honestAcc += a[oAccepted]
		} else {
			corrRej += a[oRejected] + a[oError]
			corrPanic += a[oPanicString] + a[oPanicRuntime]
			corrAccAllowed += a[oAccepted]
		}
	}
	c.Set("length_fixing(determined from the code)", map[string]string{
		"rhp2.RangeProofVerifier.Verify": "fixes the length: len(proof) must equal RangeProofSize(LeavesPerSector,start,end); shorter and longer rejected",
		"rhp2.VerifySectorRangeProof / rhp4.VerifySectorRootsProof / rhp4.VerifyLeafProof": "fixes the length: len(proof) must equal RangeProofSize(n,start,end); shorter and longer rejected",
		"rhp2.VerifyDiffProof / rhp4.VerifyFreeSectorsProof":                               "leaf hashes: count must equal the number of touched indices; tree hashes: surplus rejected (len(treeHashes)==0 after use), a short proof is rejected only through the root comparison",
		"rhp2.VerifyAppendProof / rhp4.VerifyAppendSectorsProof":                           "do NOT fix the length: popcount(n) hashes are consumed and surplus hashes are ignored, so a longer proof is accepted (not a violation of the property as written); shorter proofs are rejected through the old-root comparison",
	})
	c.Set("per_verifier_outcomes", per)
	c.Set("panic_samples", e.panics)
	c.Set("family_counts", e.notes)
	c.Count("honest_accepted", honestAcc)
	c.Count("corruptions_rejected_false", corrRej)
	c.Count("corruptions_rejected_by_panic", corrPanic)
	c.Count("corruptions_accepted", corrAccAllowed)
	distinct := 0
	for _, n := range tot {
		if n > 0 {
			distinct++
		}
	}
	c.Set("distinct_outcome_kinds", distinct)
	var rt []string
	for k := range e.panics {
		if strings.HasSuffix(k, "|"+outcomeNames[oPanicRuntime]) {
			rt = append(rt, k)
		}
	}
	sort.Strings(rt)
	c.Set("suspicious_runtime_panics", rt)
	c.RequireFeature("honest_accepted", "corruptions_rejected_false", "root_comparisons", "proofs_equal_reference")
	c.Assume("BLAKE2b-256 is collision resistant (an altered hash/datum/root changes the recomputed root); golang.org/x/crypto/blake2b is the trusted reference hash")
	c.Assume("the root of an empty list is the zero hash by library convention; the element count n is a trusted input held true in every corruption")
	c.Assume("sector contents are a structured finite family (zero, ones, all-leaves-distinct counter, single set bits at leaf / 64-leaf-subtree / goroutine-chunk boundaries); control flow of the hashing code does not depend on data values")
	c.Assume("sizes above the bounds (lists > N, diff proofs > M sectors) are not covered")
}

func replay(c *vf.Ctx, raw json.RawMessage) {
	var d caseDesc
	if err := json.Unmarshal(raw, &d); err != nil {
		c.HarnessError("bad case: %v", err)
		return
	}
	e := newEnv(c)
	replayCase(e, d)
	e.flush()
}
