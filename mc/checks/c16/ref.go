package c16

// Reference model ("RefMerkle"): the plainly defined binary Merkle tree.
//
//	leaf  = BLAKE2b-256(0x00 || 64 bytes)
//	node  = BLAKE2b-256(0x01 || left || right)
//	root(list) = list[0] if len==1; node(root(list[:s]), root(list[s:])) with
//	             s = the largest power of two strictly smaller than len
//	root(empty) = zero hash (convention of the library, recorded as an assumption)
//
// Everything here uses golang.org/x/crypto/blake2b directly and never calls
// go.sia.tech/core/blake2b or the rhp packages.

import (
	"encoding/binary"
	"sort"

	xb "golang.org/x/crypto/blake2b"

	"go.sia.tech/core/types"
)

// H is a 32-byte hash.
type H = types.Hash256

func refLeaf(b []byte) H {
	if len(b) != 64 {
		panic("refLeaf: leaf must be 64 bytes")
	}
	var buf [65]byte
	buf[0] = 0x00
	copy(buf[1:], b)
	return xb.Sum256(buf[:])
}

func refNode(l, r H) H {
	var buf [65]byte
	buf[0] = 0x01
	copy(buf[1:33], l[:])
	copy(buf[33:], r[:])
	return xb.Sum256(buf[:])
}

// refSplit returns the largest power of two strictly smaller than n (n >= 2).
func refSplit(n int) int {
	s := 1
	for s*2 < n {
		s *= 2
	}
	return s
}

// refRoot is the naive recursive root of a list of leaf hashes.
func refRoot(hs []H) H {
	switch len(hs) {
	case 0:
		return H{}
	case 1:
		return hs[0]
	}
	s := refSplit(len(hs))
	return refNode(refRoot(hs[:s]), refRoot(hs[s:]))
}

// token derives a distinct 32-byte token (used as sector roots in lists).
func token(seed int64, dom string, i int) H {
	var buf [16]byte
	binary.LittleEndian.PutUint64(buf[:8], uint64(seed))
	binary.LittleEndian.PutUint64(buf[8:], uint64(i))
	return xb.Sum256(append([]byte("verif/c16/"+dom+"|"), buf[:]...))
}

// refList memoises subtree roots of one list (the memo is only a cache of
// refRoot(leaves[i:j])).
type refList struct {
	leaves []H
	memo   map[[2]int]H
}

func newRefList(leaves []H) *refList {
	return &refList{leaves: leaves, memo: map[[2]int]H{}}
}

func (l *refList) root(i, j int) H {
	if j-i == 1 {
		return l.leaves[i]
	}
	if j == i {
		return H{}
	}
	k := [2]int{i, j}
	if h, ok := l.memo[k]; ok {
		return h
	}
	s := refSplit(j - i)
	h := refNode(l.root(i, i+s), l.root(i+s, j))
	l.memo[k] = h
	return h
}

// refSector is the full reference tree of one sector (65536 leaves, perfect).
type refSector struct {
	levels [][]H // levels[0] = leaf hashes, levels[16] = {root}
}

func newRefSector(data []byte) *refSector {
	n := len(data) / 64
	lv := make([]H, n)
	for i := range lv {
		lv[i] = refLeaf(data[i*64 : i*64+64])
	}
	rs := &refSector{levels: [][]H{lv}}
	for len(lv) > 1 {
		up := make([]H, len(lv)/2)
		for i := range up {
			up[i] = refNode(lv[2*i], lv[2*i+1])
		}
		rs.levels = append(rs.levels, up)
		lv = up
	}
	return rs
}

// root returns the root of the aligned power-of-two subtree [i,j).
func (rs *refSector) root(i, j int) H {
	sz := j - i
	k := 0
	for 1<<k < sz {
		k++
	}
	if 1<<k != sz || i%sz != 0 {
		panic("refSector.root: not an aligned power-of-two subtree")
	}
	return rs.levels[k][i/sz]
}

func (rs *refSector) top() H { return rs.levels[len(rs.levels)-1][0] }

// refRangeProof is the canonical range proof for [start,end) in a tree of n
// leaves: roots of the maximal subtrees of the canonical tree that are
// disjoint from the range, in left-to-right order.
func refRangeProof(n, start, end int, root func(i, j int) H) []H {
	out := []H{}
	var rec func(i, j int)
	rec = func(i, j int) {
		if i >= start && j <= end {
			return
		}
		if j <= start || i >= end {
			out = append(out, root(i, j))
			return
		}
		mid := i + refSplit(j-i)
		rec(i, mid)
		rec(mid, j)
	}
	rec(0, n)
	return out
}

// refDiffProof is the canonical multi-leaf proof: the changed leaves in
// ascending order and the roots of the maximal PERFECT subtrees of the
// canonical tree that contain no changed leaf, left to right. (An imperfect
// subtree - one that contains the last leaf of a list whose length is not a
// power of two - is always split: a diff proof must expose the perfect
// subtrees so that appended leaves can be merged into them.)
func refDiffProof(n int, changed []int, root func(i, j int) H) (tree, leaf []H) {
	tree, leaf = []H{}, []H{}
	has := func(i, j int) bool {
		k := sort.SearchInts(changed, i)
		return k < len(changed) && changed[k] < j
	}
	var rec func(i, j int)
	rec = func(i, j int) {
		if i >= j {
			return
		}
		if sz := j - i; !has(i, j) && sz&(sz-1) == 0 {
			tree = append(tree, root(i, j))
			return
		}
		if j-i == 1 {
			leaf = append(leaf, root(i, j))
			return
		}
		mid := i + refSplit(j-i)
		rec(i, mid)
		rec(mid, j)
	}
	rec(0, n)
	return
}

// refAppendProof: the roots of the perfect subtrees of the binary
// decomposition of n, lowest height (right-most) first.
func refAppendProof(n int, root func(i, j int) H) []H {
	out := []H{}
	for b := 0; 1<<b <= n; b++ {
		if n&(1<<b) != 0 {
			start := n &^ ((1 << (b + 1)) - 1)
			out = append(out, root(start, start+1<<b))
		}
	}
	return out
}

// action is a naive list operation (mirror of the RHP2 write actions).
type action struct {
	Op string `json:"op"` // "append" | "trim" | "swap"
	A  int    `json:"a"`
	B  int    `json:"b"`
}

// refApply applies actions naively to a copy of list; appended elements are
// taken from app in order. touched = every index < len(list) that any action
// reads or writes (sorted).
func refApply(list []H, acts []action, app []H) (out []H, touched []int) {
	out = append([]H(nil), list...)
	set := map[int]bool{}
	for _, a := range acts {
		switch a.Op {
		case "append":
			set[len(out)] = true
			out = append(out, app[0])
			app = app[1:]
		case "trim":
			for k := 0; k < a.A; k++ {
				set[len(out)-1] = true
				out = out[:len(out)-1]
			}
		case "swap":
			set[a.A], set[a.B] = true, true
			out[a.A], out[a.B] = out[a.B], out[a.A]
		}
	}
	for i := range set {
		if i < len(list) {
			touched = append(touched, i)
		}
	}
	sort.Ints(touched)
	return
}

// freeActions is the documented meaning of freeing sectors: the i-th freed
// index is swapped with the i-th element from the end, then the tail is
// trimmed.
func freeActions(n int, freed []int) []action {
	var as []action
	for i, f := range freed {
		as = append(as, action{Op: "swap", A: f, B: n - 1 - i})
	}
	return append(as, action{Op: "trim", A: len(freed)})
}
