package c16

import (
	"bytes"
	"encoding/binary"
	"fmt"
	"io"
	"math/bits"
	"runtime"
	"sync"
	"unsafe"

	"golang.org/x/sys/cpu"

	cb "go.sia.tech/core/blake2b"
	rhp2 "go.sia.tech/core/rhp/v2"
	rhp4 "go.sia.tech/core/rhp/v4"
	"verifmc/vf"
)

const (
	sectorSize      = rhp2.SectorSize
	leavesPerSector = sectorSize / 64
)

// content is one member of the sector-content family with its reference tree.
type content struct {
	idx      int
	name     string
	data     *[sectorSize]byte
	ref      *refSector
	distinct bool // every leaf differs from every other leaf

	cacheOnce  sync.Once
	cacheRoots []H
}

func goroutineChunk() int {
	p := 1 << bits.Len(uint(runtime.NumCPU()))
	return sectorSize / p
}

type contentSpec struct {
	name string
	fill func(seed int64, d []byte)
}

func setBit(off int, mask byte) func(int64, []byte) {
	return func(_ int64, d []byte) { d[off] = mask }
}

func contentSpecs() []contentSpec {
	per := goroutineChunk()
	return []contentSpec{
		{"counter(every leaf distinct)", func(seed int64, d []byte) {
			for i := 0; i < leavesPerSector; i++ {
				l := d[i*64 : i*64+64]
				binary.LittleEndian.PutUint64(l[0:], uint64(i))
				binary.LittleEndian.PutUint64(l[8:], uint64(seed))
				for j := 16; j < 64; j++ {
					l[j] = byte(i*131 + j*7 + int(seed))
				}
				binary.BigEndian.PutUint32(l[60:], uint32(i)*2654435761)
			}
		}},
		{"zero", func(int64, []byte) {}},
		{"bit@leaf0.first", setBit(0, 0x01)},
		{"ones", func(_ int64, d []byte) {
			for i := range d {
				d[i] = 0xFF
			}
		}},
		{"bit@leaf0.last", setBit(63, 0x80)},
		{"bit@leaf1.first", setBit(64, 0x01)},
		{"bit@leaf3.last", setBit(255, 0x80)},
		{"bit@leaf4.first", setBit(256, 0x01)},
		{"bit@leaf65535.first", setBit(sectorSize-64, 0x01)},
		{"bit@leaf65535.last", setBit(sectorSize-1, 0x80)},
		{"bit@subtree64.end", setBit(4095, 0x80)},
		{"bit@subtree64.start", setBit(4096, 0x01)},
		{fmt.Sprintf("bit@gochunk.end(%d)", per-1), setBit(per-1, 0x80)},
		{fmt.Sprintf("bit@gochunk.start(%d)", per), setBit(per, 0x01)},
	}
}

func buildContent(seed int64, idx int) *content {
	sp := contentSpecs()[idx]
	d := new([sectorSize]byte)
	sp.fill(seed, d[:])
	return &content{idx: idx, name: sp.name, data: d, ref: newRefSector(d[:]), distinct: idx == 0}
}

var contents []*content

func getContents(e *env) []*content {
	if contents == nil {
		n := len(contentSpecs())
		cs := make([]*content, n)
		vf.ParallelFor(n, func(i int) { cs[i] = buildContent(e.seed, i) })
		contents = cs
	}
	return contents
}

// chunkReader returns at most sizes[k] bytes on the k-th Read (cyclic).
type chunkReader struct {
	r     io.Reader
	sizes []int
	k     int
}

func (c *chunkReader) Read(p []byte) (int, error) {
	n := c.sizes[c.k%len(c.sizes)]
	c.k++
	if len(p) > n {
		p = p[:n]
	}
	return c.r.Read(p)
}

func mkReader(data []byte, chunk []int) io.Reader {
	if len(chunk) == 0 {
		return bytes.NewReader(data)
	}
	return &chunkReader{r: bytes.NewReader(data), sizes: chunk}
}

var chunkSizes = []int{1, 63, 64, 65, 127, 128, 1023, 1024, 4096}

// cpuPaths lists the hashing paths that can be selected on this machine.
func cpuPaths() []string {
	if runtime.GOARCH == "amd64" && cpu.X86.HasAVX2 {
		return []string{"avx2", "generic"}
	}
	return []string{"generic"}
}

func (e *env) cmpRoot(fn, path string, got, want H, weight int64, cs caseDesc) {
	e.evals.Add(1)
	e.c.Count("root_comparisons", 1)
	if got != want {
		cs.Path = path
		cs.Func = fn
		e.violate(fn+"|root-mismatch|"+path, fmt.Sprintf("%s on the %s path returned %x, reference tree gives %x: %s", fn, path, got[:8], want[:8], mustJSON(cs)), weight, cs)
	}
}

// ---- hash primitives ----

func primInput(seed int64, kind string, i int) (buf [256]byte) {
	switch kind {
	case "bit":
		if i > 0 {
			buf[(i-1)/8] = 1 << ((i - 1) % 8)
		}
	case "lane":
		switch i {
		case 0:
			for j := range buf {
				buf[j] = byte(j)
			}
		case 1:
			for j := range buf {
				buf[j] = byte(j/64 + 1)
			}
		case 2:
			for j := range buf {
				buf[j] = 0xFF
			}
		case 3:
			for j := range buf {
				buf[j] = byte(0x80 >> (j / 64)) // one distinct bit pattern per lane
			}
		default:
			for j := 0; j < 8; j++ {
				t := token(seed, "prim", i*8+j)
				copy(buf[j*32:], t[:])
			}
		}
	}
	return
}

func checkPrim(e *env, path, kind string, i int) {
	in := primInput(e.seed, kind, i)
	cs := caseDesc{Family: "prim", Name: kind, N: i}
	w := int64(i)
	if kind == "bit" && i <= 512 {
		var m [64]byte
		copy(m[:], in[:64])
		e.cmpRoot("blake2b.SumLeaf", path, cb.SumLeaf(&m), refLeaf(m[:]), w, cs)
		var l, r H
		copy(l[:], in[:32])
		copy(r[:], in[32:64])
		e.cmpRoot("blake2b.SumPair", path, cb.SumPair(l, r), refNode(l, r), w, cs)
	}
	if kind == "lane" {
		for k := 0; k < 4; k++ {
			var m [64]byte
			copy(m[:], in[k*64:])
			e.cmpRoot("blake2b.SumLeaf", path, cb.SumLeaf(&m), refLeaf(m[:]), w, cs)
			var l, r H
			copy(l[:], m[:32])
			copy(r[:], m[32:])
			e.cmpRoot("blake2b.SumPair", path, cb.SumPair(l, r), refNode(l, r), w, cs)
		}
	}
	leaves := (*[4][64]byte)(unsafe.Pointer(&in))
	var outs [4][32]byte
	cb.SumLeaves(&outs, leaves)
	for k := 0; k < 4; k++ {
		e.cmpRoot(fmt.Sprintf("blake2b.SumLeaves[lane%d]", k), path, outs[k], refLeaf(in[k*64:k*64+64]), w, cs)
	}
	nodes := (*[8][32]byte)(unsafe.Pointer(&in))
	outs = [4][32]byte{}
	cb.SumNodes(&outs, nodes)
	for k := 0; k < 4; k++ {
		e.cmpRoot(fmt.Sprintf("blake2b.SumNodes[lane%d]", k), path, outs[k], refNode(nodes[2*k], nodes[2*k+1]), w, cs)
	}
	// output aliasing the first half of the input, as the sector accumulator uses it
	al := in
	var want [4]H
	for k := 0; k < 4; k++ {
		want[k] = refNode(nodes[2*k], nodes[2*k+1])
	}
	cb.SumNodes((*[4][32]byte)(unsafe.Pointer(&al)), (*[8][32]byte)(unsafe.Pointer(&al)))
	for k := 0; k < 4; k++ {
		var got H
		copy(got[:], al[k*32:])
		e.cmpRoot(fmt.Sprintf("blake2b.SumNodes.aliased[lane%d]", k), path, got, want[k], w, cs)
	}
	e.c.Distinct("prim", kind, i)
}

// ---- sector roots ----

var readerFuncs = []string{"rhp2.ReaderRoot", "rhp4.ReaderRoot", "rhp2.ReadSectorRoot", "rhp4.ReadSectorRoot", "rhp2.ReadSector", "rhp4.ReadSector"}

// checkReaderFunc runs one streaming root function over a whole sector.
func checkReaderFunc(e *env, path string, ct *content, fn string, chunk []int) {
	cs := caseDesc{Family: "sector-reader", Content: ct.idx, Name: ct.name, Func: fn, Chunk: chunk}
	w := int64(ct.idx*100 + len(chunk))
	r := mkReader(ct.data[:], chunk)
	var got H
	var err error
	var sec *[sectorSize]byte
	pan, msg := try(func() {
		switch fn {
		case "rhp2.ReaderRoot":
			got, err = rhp2.ReaderRoot(r)
		case "rhp4.ReaderRoot":
			got, err = rhp4.ReaderRoot(r)
		case "rhp2.ReadSectorRoot":
			got, err = rhp2.ReadSectorRoot(r)
		case "rhp4.ReadSectorRoot":
			got, err = rhp4.ReadSectorRoot(r)
		case "rhp2.ReadSector":
			got, sec, err = rhp2.ReadSector(r)
		case "rhp4.ReadSector":
			got, sec, err = rhp4.ReadSector(r)
		}
	})
	if pan || err != nil {
		e.evals.Add(1)
		cs.Path = path
		e.violate(fn+"|fails-on-valid-stream|"+path, fmt.Sprintf("%s failed on a full sector stream (panic=%v %s err=%v): %s", fn, pan, msg, err, mustJSON(cs)), w, cs)
		return
	}
	e.cmpRoot(fn, path, got, ct.ref.top(), w, cs)
	if sec != nil && *sec != *ct.data {
		cs.Path = path
		e.violate(fn+"|sector-data-mismatch|"+path, "ReadSector returned data different from the stream: "+mustJSON(cs), w, cs)
	}
	e.c.Distinct("sector-reader", ct.idx, fn, fmt.Sprint(chunk))
}

func checkSectorFuncs(e *env, path string, ct *content) {
	cs := caseDesc{Family: "sector-root", Content: ct.idx, Name: ct.name}
	w := int64(ct.idx)
	e.cmpRoot("rhp2.SectorRoot", path, rhp2.SectorRoot(ct.data), ct.ref.top(), w, cs)
	e.cmpRoot("rhp4.SectorRoot", path, rhp4.SectorRoot((*[rhp4.SectorSize]byte)(ct.data)), ct.ref.top(), w, cs)
	cache := rhp4.CachedSectorSubtrees((*[rhp4.SectorSize]byte)(ct.data))
	if len(cache) != leavesPerSector/64 {
		e.violate("rhp4.CachedSectorSubtrees|wrong-length|"+path, fmt.Sprintf("got %d subtree roots", len(cache)), w, cs)
		return
	}
	for i, h := range cache {
		c2 := cs
		c2.N = i
		e.cmpRoot("rhp4.CachedSectorSubtrees", path, h, ct.ref.root(i*64, i*64+64), w*2000+int64(i), c2)
	}
	e.cmpRoot("rhp4.MetaRoot(cache)", path, rhp4.MetaRoot(cache), ct.ref.top(), w, cs)
	e.c.Distinct("sector-root", ct.idx)
}

// checkSmallStream: ReaderRoot over the first k leaves of the counter content.
func checkSmallStream(e *env, path string, ct *content, k int, chunk []int) {
	cs := caseDesc{Family: "small-stream", Content: ct.idx, N: k, Chunk: chunk}
	want := refRoot(ct.ref.levels[0][:k])
	for _, fn := range []string{"rhp2.ReaderRoot", "rhp4.ReaderRoot"} {
		f := rhp2.ReaderRoot
		if fn == "rhp4.ReaderRoot" {
			f = rhp4.ReaderRoot
		}
		got, err := f(mkReader(ct.data[:k*64], chunk))
		if err != nil {
			e.violate(fn+"|fails-on-valid-stream|"+path, fmt.Sprintf("%s error %v on %d leaves: %s", fn, err, k, mustJSON(cs)), int64(k), cs)
			continue
		}
		e.cmpRoot(fn, path, got, want, int64(k), cs)
	}
	// a stream that is not a whole number of leaves must be refused
	if k > 0 {
		e.evals.Add(1)
		if _, err := rhp2.ReaderRoot(mkReader(ct.data[:k*64-1], chunk)); err == nil {
			e.violate("rhp2.ReaderRoot|accepts-partial-leaf|"+path, "ReaderRoot accepted a stream that is not a multiple of the leaf size: "+mustJSON(cs), int64(k), cs)
		} else {
			e.c.Count("partial_leaf_streams_refused", 1)
		}
	}
	e.c.Distinct("small-stream", k, fmt.Sprint(chunk))
}

// checkPartialSector: ReadSectorRoot of a stream of k leaves is the root of
// the zero-padded sector (behaviour pinned by TestPartialReadSectorRoot);
// ReadSector refuses a short stream.
func checkPartialSector(e *env, path string, ct *content, k int) {
	cs := caseDesc{Family: "partial-sector", Content: ct.idx, N: k}
	pad := make([]byte, sectorSize)
	copy(pad, ct.data[:k*64])
	want := newRefSector(pad).top()
	got, err := rhp2.ReadSectorRoot(bytes.NewReader(ct.data[:k*64]))
	if err != nil {
		e.violate("rhp2.ReadSectorRoot|fails-on-valid-stream|"+path, fmt.Sprintf("error %v on %d leaves", err, k), int64(k), cs)
	} else {
		e.cmpRoot("rhp2.ReadSectorRoot(partial)", path, got, want, int64(k), cs)
	}
	if k > 0 {
		e.evals.Add(2)
		if _, err := rhp2.ReadSectorRoot(bytes.NewReader(ct.data[:k*64-1])); err == nil {
			e.violate("rhp2.ReadSectorRoot|accepts-partial-leaf|"+path, "accepted a stream that is not a multiple of the leaf size: "+mustJSON(cs), int64(k), cs)
		} else {
			e.c.Count("partial_leaf_streams_refused", 1)
		}
		if _, _, err := rhp2.ReadSector(bytes.NewReader(ct.data[:k*64])); err == nil && k < leavesPerSector {
			e.violate("rhp2.ReadSector|accepts-short-stream|"+path, "accepted a stream shorter than a sector: "+mustJSON(cs), int64(k), cs)
		}
	}
	e.c.Distinct("partial-sector", k)
}

// ---- lists ----

var tokenCache []H

func tokens(e *env, n int) []H {
	if len(tokenCache) < n {
		t := make([]H, n)
		copy(t, tokenCache)
		for i := len(tokenCache); i < n; i++ {
			t[i] = token(e.seed, "root", i)
		}
		tokenCache = t
	}
	return tokenCache[:n]
}

func checkMetaRoot(e *env, path string, list []H, want H) {
	n := len(list)
	cs := caseDesc{Family: "meta-root", N: n}
	e.cmpRoot("rhp2.MetaRoot", path, rhp2.MetaRoot(list), want, int64(n), cs)
	e.cmpRoot("rhp4.MetaRoot", path, rhp4.MetaRoot(list), want, int64(n), cs)
	if n <= 300 {
		var acc cb.Accumulator
		for _, h := range list {
			acc.AddLeaf(h)
		}
		e.cmpRoot("blake2b.Accumulator.Root", path, acc.Root(), want, int64(n), cs)
		if acc.NumLeaves != uint64(n) {
			e.violate("blake2b.Accumulator|wrong-count|"+path, fmt.Sprintf("NumLeaves=%d after %d AddLeaf", acc.NumLeaves, n), int64(n), cs)
		}
	}
	e.c.Distinct("meta-root", n)
}

func runRoots(e *env) {
	c := e.c
	cts := getContents(e)
	var names []string
	for _, ct := range cts {
		names = append(names, ct.name)
	}
	c.Set("sector_contents", names)
	paths := cpuPaths()
	c.Set("cpu_paths", paths)
	if len(paths) == 1 {
		c.NotExhaustive("AVX2 not available on this machine: only the generic hashing path was exercised")
	}
	bigN := []int{65535, 65536, 65537}
	tk := tokens(e, 65537)
	wantSmall := make([]H, 301)
	for n := range wantSmall {
		wantSmall[n] = refRoot(tk[:n])
	}
	wantBig := make([]H, len(bigN))
	vf.ParallelFor(len(bigN), func(i int) { wantBig[i] = refRoot(tk[:bigN[i]]) })

	orig := cpu.X86.HasAVX2
	defer func() { cpu.X86.HasAVX2 = orig }()
	for _, path := range paths {
		// nothing else runs while the flag is changed; it is constant during each parallel loop below
		cpu.X86.HasAVX2 = path == "avx2"

		// hash primitives: 2048 single-bit inputs + zero, and lane-distinct inputs
		vf.ParallelFor(2049, func(i int) { checkPrim(e, path, "bit", i) })
		vf.ParallelFor(24, func(i int) { checkPrim(e, path, "lane", i) })

		// sector roots
		vf.ParallelFor(len(cts), func(i int) { checkSectorFuncs(e, path, cts[i]) })
		type task struct {
			ct    *content
			fn    string
			chunk []int
		}
		var tasks []task
		for _, ct := range cts {
			for _, fn := range readerFuncs {
				tasks = append(tasks, task{ct, fn, nil})
				for _, k := range chunkSizes {
					if c.Quick() && k == 1 && ct.idx >= 3 {
						continue // 1-byte reads on the full sector: three contents in the quick tier
					}
					tasks = append(tasks, task{ct, fn, []int{k}})
				}
			}
		}
		if path == paths[0] {
			// every alternation of two chunk sizes, on the all-distinct content
			for _, a := range chunkSizes {
				for _, b := range chunkSizes {
					if a != b {
						tasks = append(tasks, task{cts[0], "rhp2.ReaderRoot", []int{a, b}}, task{cts[0], "rhp2.ReadSectorRoot", []int{a, b}})
					}
				}
			}
		}
		// long tasks (1-byte reads) first
		vf.ParallelFor(len(tasks), func(i int) {
			if c.Expired() {
				return
			}
			t := tasks[i]
			checkReaderFunc(e, path, t.ct, t.fn, t.chunk)
		})
		e.note("sector_reader_runs", int64(len(tasks)))

		// MetaRoot and the generic accumulator
		vf.ParallelFor(301, func(n int) { checkMetaRoot(e, path, tk[:n], wantSmall[n]) })
		vf.ParallelFor(len(bigN), func(i int) { checkMetaRoot(e, path, tk[:bigN[i]], wantBig[i]) })

		// short streams
		smallChunks := [][]int{nil, {1}, {63}, {65}, {1024}}
		vf.ParallelFor(301, func(k int) {
			for _, ch := range smallChunks {
				checkSmallStream(e, path, cts[0], k, ch)
			}
		})
		per := goroutineChunk() / 64
		ks := []int{0, 1, 2, 3, 4, 5, 63, 64, 65, per - 1, per, per + 1, 2*per + 1, 65535, 65536}
		vf.ParallelFor(len(ks), func(i int) { checkPartialSector(e, path, cts[0], ks[i]) })
	}
	cpu.X86.HasAVX2 = orig
	if c.Quick() {
		c.Set("quick_tier_reduction", "1-byte-per-Read chunking of whole-sector readers on 3 of the contents (all contents in thorough)")
	}
}

func replayRoots(e *env, d caseDesc) {
	orig := cpu.X86.HasAVX2
	defer func() { cpu.X86.HasAVX2 = orig }()
	path := d.Path
	if path == "" || path == "default" {
		path = cpuPaths()[0]
	}
	if path == "avx2" && !orig {
		e.c.HarnessError("case needs the AVX2 path, which this machine does not have")
		return
	}
	cpu.X86.HasAVX2 = path == "avx2"
	switch d.Family {
	case "prim":
		checkPrim(e, path, d.Name, d.N)
	case "sector-reader":
		checkReaderFunc(e, path, buildContent(e.seed, d.Content), d.Func, d.Chunk)
	case "sector-root":
		checkSectorFuncs(e, path, buildContent(e.seed, d.Content))
	case "small-stream":
		checkSmallStream(e, path, buildContent(e.seed, d.Content), d.N, d.Chunk)
	case "partial-sector":
		checkPartialSector(e, path, buildContent(e.seed, d.Content), d.N)
	case "meta-root":
		tk := tokens(e, d.N)
		checkMetaRoot(e, path, tk, refRoot(tk))
	default:
		e.c.HarnessError("unknown case family %q", d.Family)
	}
}
