// Package c04: accumulator membership soundness. At every state of a
// union-alphabet exploration (all six leaf kinds, spent/revised/resolved and
// reverted-branch elements) every element known to the history is presented
// unmodified and under every single mutation through the three doors:
// ValidateTransactionElements, ValidateV2Transaction and the v1 supplement
// check of ValidateBlock.
package c04

import (
	"encoding/json"
	"fmt"
	"strings"

	"go.sia.tech/core/consensus"
	"go.sia.tech/core/types"
	"verifmc/chain"
	"verifmc/vf"
)

func init() {
	vf.Register(&vf.Check{ID: "C04", Level: "model_checking", Run: run, Replay: replay})
}

var opt = chain.AllChecks()

func menu(w *chain.World) []chain.Action {
	return []chain.Action{
		chain.V1Pay(true, 2), chain.V1SF(true), chain.V1Form(1, 2, 100), chain.V1Revise("pay"), chain.V1Proof(false),
		chain.V2Pay(chain.AddrV2, true, 2), chain.V2Pay(chain.AddrACS, false, 1), chain.V2Chain(chain.AddrACS), chain.V2SF(true), chain.V2Form(1, 2, 100), chain.V2Form(0, 1, 10),
		chain.V2Revise("pay"), chain.V2Renew("partial"), chain.V2Proof(), chain.V2Expire(), chain.V2Attest(),
		// same-block interactions: the leaf written for an element touched twice in one block must carry its FINAL status
		chain.Seq("v2revise+renew", chain.V2Revise("pay"), chain.V2Renew("none")), chain.Seq("v2revise-twice", chain.V2Revise("pay"), chain.V2Revise("risk")),
		chain.Seq("v1revise+proof", chain.V1Revise("pay"), chain.V1Proof(false)), chain.Seq("v1form+revise", chain.V1Form(1, 2, 100), chain.V1Revise("pay")), chain.V1Chain(),
	}
}

func run(c *vf.Ctx) {
	c.Set("rule", "explicit-state DFS (union alphabet, leaf positions in the key, reverts); at every distinct state: door 1 (ValidateTransactionElements) for EVERY tracked element (live, spent, resolved, chain index) unmodified and under every single mutation from a reflection walk (each field +-1 / byte flips, leaf index +-1 / another element's index, each proof hash flipped, proof shortened / lengthened, another element's proof, outdated proof, element of a reverted branch, fabricated element); door 4 (parents created earlier in the same block: every created-element id of any kind x the contents of every created siacoin / siafund output); doors 2 and 3 (ValidateV2Transaction with re-balanced re-signed transactions; v1 block supplement) for one canonical element per kind under every mutation. door 5 (transaction-combinatorics model: in every transaction naming two elements of one kind, element j re-presented under the id - and optionally the position and proof - of its sibling i). Oracle: membership(mutated)=false, membership(original)=live per reference ledger")
	nets := []string{"mixed", "v1-eras", "v2-only"}
	if !c.Quick() {
		nets = append(nets, "v2-eph5")
	}
	for _, n := range nets {
		if c.Expired() {
			break
		}
		sp := chain.Spec(n)
		m := &chain.Model{Name: "union-leafkey", Spec: sp, Menu: menu, Opt: opt, LeafKey: true, StaleResolve: true,
			H: vf.Pick[uint64](c, 7, 9), D: vf.Pick(c, 2, 3), K: vf.Pick(c, 1, 1), R: vf.Pick(c, 1, 2)}
		if sp.Name == "mixed" {
			m.SkipStart = 3
			m.H += 3
		}
		m.OnState = func(x *chain.Explorer, w *chain.World, path []string) { doors(c, x, w, path) }
		x := chain.NewExplorer(c, m, "C04")
		x.Run()
		x.Report(n + "/")
	}
	// door 5: multi-element transactions (transaction-combinatorics model)
	for _, n := range []string{"v2-only", "mixed"} {
		if c.Expired() {
			break
		}
		sp := chain.Spec(n)
		mm := &chain.Model{Name: "merged", Spec: sp, Menu: chain.MergedMenu, Opt: opt, H: 8, D: 2, K: 1, R: 0}
		if !c.Quick() {
			mm.Menu = chain.MergedMenu3
		}
		if sp.Name == "mixed" {
			mm.SkipStart = 3
			mm.H += 3
		}
		mm.OnTransition = func(x *chain.Explorer, prev, w *chain.World, path []string) {
			siblingDoor(c, x, prev, w.Hist[len(w.Hist)-1].B, path)
		}
		xm := chain.NewExplorer(c, mm, "C04")
		xm.Run()
		xm.Report(n + "/merged/")
	}
	c.RequireFeature("door5_mutant_rejected", "door5:siacoin parent", "door5:resolved contract", "door5:storage proof chain index", "door5:revised contract", "door1_original_live_accepted", "door1_original_dead_rejected", "door1_mutant_rejected", "door2_mutant_rejected", "door2_original_accepted",
		"door3_mutant_rejected", "door3_original_accepted", "door4_mutant_rejected", "door4_original_accepted", "door2b_mutant_rejected", "door2b_original_accepted", "reverted_branch_rejected", "outdated_proof_rejected", "kind:siacoin", "kind:siafund", "kind:filecontract", "kind:v2filecontract", "kind:chainindex")
	c.Sample(map[string]any{"door": 1, "element": "siacoin", "mutation": ".SiacoinOutput.Value.Lo+1", "expected": "rejected"})
	c.Sample(map[string]any{"door": 3, "element": "filecontract (supplement)", "mutation": ".FileContract.ValidProofOutputs[1].Value.Lo+1", "expected": "rejected"})
}

func txnSC(e types.SiacoinElement) types.V2Transaction {
	return types.V2Transaction{SiacoinInputs: []types.V2SiacoinInput{{Parent: e}}}
}
func txnSF(e types.SiafundElement) types.V2Transaction {
	return types.V2Transaction{SiafundInputs: []types.V2SiafundInput{{Parent: e}}}
}
func txnRev(e types.V2FileContractElement) types.V2Transaction {
	return types.V2Transaction{FileContractRevisions: []types.V2FileContractRevision{{Parent: e, Revision: e.V2FileContract}}}
}
func txnRes(e types.V2FileContractElement) types.V2Transaction {
	return types.V2Transaction{FileContractResolutions: []types.V2FileContractResolution{{Parent: e, Resolution: &types.V2FileContractExpiration{}}}}
}
func txnCI(host types.V2FileContractElement, ci types.ChainIndexElement) types.V2Transaction {
	return types.V2Transaction{FileContractResolutions: []types.V2FileContractResolution{{Parent: host, Resolution: &types.V2StorageProof{ProofIndex: ci}}}}
}

// notProof skips nothing; mutations of the `shared` flag are impossible (unexported).
func noSkip(string) bool { return false }

func doors(c *vf.Ctx, x *chain.Explorer, w *chain.World, path []string) {
	acc := w.CS.Elements
	member := func(t types.V2Transaction) bool {
		var err error
		if p, _ := vf.Try(func() { err = acc.ValidateTransactionElements(t) }); p != nil {
			x.Violate("door1|panic", fmt.Sprintf("ValidateTransactionElements panicked: %v", p), path)
			return false
		}
		return err == nil
	}
	bad := func(door, kind, mut string) {
		x.Violate("membership-accepted|"+door+"|"+kind+"|"+stablePath(mut), fmt.Sprintf("%s accepted a %s element under mutation %q at height %d (n=%d leaves)", door, kind, mut, w.Height(), acc.NumLeaves), append(append([]string(nil), path...), "mutation:"+door+":"+kind+":"+mut))
	}
	s := w.Store
	// a host contract for chain-index membership: any live v2 contract element (membership of the contract itself is checked separately)
	var hostFC *types.V2FileContractElement
	for _, id := range chain.SortedIDs(s.V2FC) {
		e := s.V2FC[types.FileContractID(id)].Copy()
		hostFC = &e
		break
	}

	// ---------- door 1: every tracked element ----------
	type presenter func() types.V2Transaction
	check1 := func(kind string, live bool, ptr any, present presenter) {
		c.Count("kind:"+kind, 1)
		if got := member(present()); got != live {
			if live {
				x.Violate("membership-rejected|door1|"+kind, fmt.Sprintf("live %s element with its maintained proof rejected by ValidateTransactionElements at height %d", kind, w.Height()), path)
			} else {
				bad("door1", kind, "spent/resolved element presented unmodified")
			}
			return
		}
		if live {
			c.Count("door1_original_live_accepted", 1)
		} else {
			c.Count("door1_original_dead_rejected", 1)
		}
		for _, m := range chain.Mutations(ptr, noSkip) {
			m.Apply()
			ok := member(present())
			m.Undo()
			c.Count("evaluations", 1)
			if ok {
				bad("door1", kind, m.Path)
			} else {
				c.Count("door1_mutant_rejected", 1)
			}
		}
		c.Distinct(w.Spec.Name, w.Height(), kind, live, acc.NumLeaves)
	}
	var firstSC *types.SiacoinElement
	for _, id := range chain.SortedIDs(s.SC) {
		e := s.SC[types.SiacoinOutputID(id)].Copy()
		if firstSC == nil {
			cp := e.Copy()
			firstSC = &cp
		}
		check1("siacoin", true, &e, func() types.V2Transaction { return txnSC(e) })
	}
	for _, id := range chain.SortedIDs(s.DeadSC) {
		e := s.DeadSC[types.SiacoinOutputID(id)].Copy()
		check1("siacoin", false, &e, func() types.V2Transaction { return txnSC(e) })
	}
	for _, id := range chain.SortedIDs(s.SF) {
		e := s.SF[types.SiafundOutputID(id)].Copy()
		check1("siafund", true, &e, func() types.V2Transaction { return txnSF(e) })
	}
	for _, id := range chain.SortedIDs(s.DeadSF) {
		e := s.DeadSF[types.SiafundOutputID(id)].Copy()
		check1("siafund", false, &e, func() types.V2Transaction { return txnSF(e) })
	}
	for _, id := range chain.SortedIDs(s.V2FC) {
		e := s.V2FC[types.FileContractID(id)].Copy()
		check1("v2filecontract", true, &e, func() types.V2Transaction { return txnRev(e) })
		check1("v2filecontract", true, &e, func() types.V2Transaction { return txnRes(e) })
	}
	for _, id := range chain.SortedIDs(s.DeadV2FC) {
		e := s.DeadV2FC[types.FileContractID(id)].Copy()
		check1("v2filecontract", false, &e, func() types.V2Transaction { return txnRev(e) })
		check1("v2filecontract", false, &e, func() types.V2Transaction { return txnRes(e) })
	}
	if hostFC != nil {
		for i := range s.CI {
			e := s.CI[i].Copy()
			check1("chainindex", true, &e, func() types.V2Transaction { return txnCI(*hostFC, e) })
		}
		// a never-created chain index (fabricated) with a borrowed proof
		if len(s.CI) > 0 {
			f := s.CI[len(s.CI)-1].Copy()
			f.ChainIndex.Height += 7
			f.ID[0] ^= 0x55
			f.ChainIndex.ID = f.ID
			if member(txnCI(*hostFC, f)) {
				bad("door1", "chainindex", "fabricated chain index with a borrowed proof")
			} else {
				c.Count("door1_mutant_rejected", 1)
			}
		}
	}
	// another element's proof / position
	ids := chain.SortedIDs(s.SC)
	for i := 0; i+1 < len(ids); i++ {
		a, b := s.SC[types.SiacoinOutputID(ids[i])].Copy(), s.SC[types.SiacoinOutputID(ids[i+1])]
		a.StateElement = b.StateElement.Copy()
		c.Count("evaluations", 1)
		if member(txnSC(a)) {
			bad("door1", "siacoin", "another element's leaf index and proof")
		} else {
			c.Count("door1_mutant_rejected", 1)
		}
		a = s.SC[types.SiacoinOutputID(ids[i])].Copy()
		a.StateElement.LeafIndex = b.StateElement.LeafIndex
		if member(txnSC(a)) {
			bad("door1", "siacoin", "another element's leaf index")
		} else {
			c.Count("door1_mutant_rejected", 1)
		}
	}
	// never-created siacoin element with a fabricated proof of the right length for every tree
	for h := 0; h < 64; h++ {
		if acc.NumLeaves&(1<<uint(h)) == 0 {
			continue
		}
		f := types.SiacoinElement{ID: types.SiacoinOutputID{1, 2, 3}, SiacoinOutput: types.SiacoinOutput{Value: types.Siacoins(1), Address: w.Keys.Addr(chain.AddrACS)},
			StateElement: types.StateElement{LeafIndex: acc.NumLeaves - 1, MerkleProof: make([]types.Hash256, h)}}
		for i := range f.StateElement.MerkleProof {
			f.StateElement.MerkleProof[i] = w.Forest.Root(h)
		}
		c.Count("evaluations", 1)
		if member(txnSC(f)) {
			bad("door1", "siacoin", "never-created element with fabricated proof")
		} else {
			c.Count("door1_mutant_rejected", 1)
		}
	}
	// outdated proofs and reverted-branch elements: compare with the previous state
	if len(w.Hist) >= 2 {
		prev := w.Hist[len(w.Hist)-1].Snap.Store
		for _, id := range chain.SortedIDs(prev.SC) {
			old := prev.SC[types.SiacoinOutputID(id)]
			cur, live := s.SC[types.SiacoinOutputID(id)]
			if live && !sameProof(old.StateElement, cur.StateElement) {
				c.Count("evaluations", 1)
				if member(txnSC(old.Copy())) {
					bad("door1", "siacoin", "outdated proof (valid one block earlier)")
				} else {
					c.Count("outdated_proof_rejected", 1)
				}
			}
		}
		// elements of this block presented against the PARENT state = elements of a branch that the parent never saw
		a := w.Hist[len(w.Hist)-1]
		pacc := a.PrevCS.Elements
		for _, id := range a.Eff.Created {
			e := w.Ref.Elems[id]
			if e.Kind != chain.KSC {
				continue
			}
			se, ok := s.SC[types.SiacoinOutputID(id)]
			if !ok {
				se, ok = s.DeadSC[types.SiacoinOutputID(id)]
			}
			if !ok {
				continue
			}
			c.Count("evaluations", 1)
			var err error
			t := txnSC(se.Copy())
			vf.Try(func() { err = pacc.ValidateTransactionElements(t) })
			if err == nil {
				bad("door1", "siacoin", "element created on a branch not applied to this state (reverted-branch element)")
			} else {
				c.Count("reverted_branch_rejected", 1)
			}
		}
	}

	// ---------- door 2: ValidateV2Transaction with re-balanced, re-signed transactions ----------
	h := w.ChildHeight()
	if h >= w.Net.HardforkV2.AllowHeight {
		v2val := func(t types.V2Transaction) bool {
			var err error
			if p, _ := vf.Try(func() { err = consensus.ValidateV2Transaction(consensus.NewMidState(w.CS), t) }); p != nil {
				return false // panics are C10's business; not an acceptance
			}
			return err == nil
		}
		door2 := func(kind string, ptr any, build func() (chain.Use, bool)) {
			u, ok := build()
			if !ok || u.V2 == nil {
				return
			}
			if !v2val(*u.V2) {
				return // not applicable at this height (maturity, window); door 1 covers the positive direction
			}
			c.Count("door2_original_accepted", 1)
			for _, m := range chain.Mutations(ptr, noSkip) {
				m.Apply()
				um, ok := build()
				acc := ok && um.V2 != nil && v2val(*um.V2)
				m.Undo()
				c.Count("evaluations", 1)
				if acc {
					bad("door2", kind, m.Path)
				} else {
					c.Count("door2_mutant_rejected", 1)
				}
			}
		}
		bc := w.NewBlockCtx()
		if p, ok := bc.PickSC(func(cl int) bool { return cl == chain.AddrACS || cl == chain.AddrV2 }, types.Siacoins(1)); ok {
			door2("siacoin", &p, func() (chain.Use, bool) { return w.UseV2SC(p, 1), true })
		}
		if p, ok := bc.PickSF(func(cl int) bool { return cl == chain.AddrV2 || cl == chain.AddrV1 }); ok {
			door2("siafund", &p, func() (chain.Use, bool) { return w.UseV2SF(p, 1), true })
		}
		for _, id := range chain.SortedIDs(s.V2FC) {
			e := s.V2FC[types.FileContractID(id)].Copy()
			door2("v2filecontract", &e, func() (chain.Use, bool) {
				if w.Keys.ClassOf(e.V2FileContract.RenterOutput.Address) < 0 || e.V2FileContract.RevisionNumber > 1<<62 {
					return chain.Use{}, false
				}
				return useRevise(w, e), true
			})
			// door 2b: the same contract was revised by an EARLIER transaction of the block; a later transaction must
			// still present the genuine accumulator element (a second revision, or a renewal)
			if w.Keys.ClassOf(e.V2FileContract.RenterOutput.Address) >= 0 && e.V2FileContract.RevisionNumber < 1<<61 && e.V2FileContract.ProofHeight >= h {
				genuine := e.Copy()
				first := w.UseV2Revise(genuine, genuine.V2FileContract, 1)
				after := func(t2 types.V2Transaction) bool {
					var err error
					if p, _ := vf.Try(func() {
						ms := consensus.NewMidState(w.CS)
						if err = consensus.ValidateV2Transaction(ms, *first.V2); err != nil {
							return
						}
						ms.ApplyV2Transaction(*first.V2)
						err = consensus.ValidateV2Transaction(ms, t2)
					}); p != nil {
						return false
					}
					return err == nil
				}
				seconds := map[string]func() (chain.Use, bool){
					"second revision": func() (chain.Use, bool) {
						rev := genuine.V2FileContract
						rev.RevisionNumber++ // what the first transaction made of it
						return w.UseV2Revise(e, rev, 1), true
					},
					"renewal": func() (chain.Use, bool) {
						bc2 := w.NewBlockCtx()
						f, ok := bc2.PickSC(func(cl int) bool { return cl == chain.AddrACS || cl == chain.AddrV2 }, types.Siacoins(400))
						if !ok {
							return chain.Use{}, false
						}
						return w.UseV2Renew(e, f)
					},
				}
				for name, build := range seconds {
					u, ok := build()
					if !ok || u.V2 == nil || !after(*u.V2) {
						continue
					}
					c.Count("door2b_original_accepted", 1)
					for _, m := range chain.Mutations(&e, noSkip) {
						m.Apply()
						um, ok := build()
						acc := ok && um.V2 != nil && after(*um.V2)
						m.Undo()
						c.Count("evaluations", 1)
						if acc {
							bad("door2b("+name+" after an in-block revision)", "v2filecontract", m.Path)
						} else {
							c.Count("door2b_mutant_rejected", 1)
						}
					}
				}
			}
			door2("v2filecontract", &e, func() (chain.Use, bool) { return w.UseV2Expire(e), true })
			door2("v2filecontract", &e, func() (chain.Use, bool) { return w.UseV2Proof(e) })
			// chain index door: mutate the proof index of an honest storage proof
			if u, ok := w.UseV2Proof(e); ok && v2val(*u.V2) {
				sp := u.V2.FileContractResolutions[0].Resolution.(*types.V2StorageProof)
				for _, m := range chain.Mutations(&sp.ProofIndex, noSkip) {
					m.Apply()
					acc := v2val(*u.V2)
					m.Undo()
					c.Count("evaluations", 1)
					if acc {
						bad("door2", "chainindex", m.Path)
					} else {
						c.Count("door2_mutant_rejected", 1)
					}
				}
			}
			break
		}
	}

	// ---------- door 4: parents created earlier in the same block ----------
	ephemeralDoor(c, x, w, path)
	v1InBlockDoor(c, x, w, path)
	// ---------- door 3: v1 parents supplied through the block supplement ----------
	if h < w.Net.HardforkV2.RequireHeight {
		door3 := func(kind string, ptr any, build func() (chain.Use, bool)) {
			u, ok := build()
			if !ok {
				return
			}
			u.ForceSupp = true
			b, bs := w.BlockOfUses(u)
			if err, p := x.TryBlock(w, b, bs); err != nil || p != nil {
				return
			}
			c.Count("door3_original_accepted", 1)
			for _, m := range chain.Mutations(ptr, noSkip) {
				m.Apply()
				um, ok := build()
				accepted := false
				if ok {
					um.ForceSupp = true
					b, bs := w.BlockOfUses(um)
					err, p := x.TryBlock(w, b, bs)
					accepted = err == nil && p == nil
				}
				m.Undo()
				c.Count("evaluations", 1)
				if accepted {
					bad("door3", kind, m.Path)
				} else {
					c.Count("door3_mutant_rejected", 1)
				}
			}
		}
		bc := w.NewBlockCtx()
		if p, ok := bc.PickSC(func(cl int) bool { return cl == chain.AddrV1 }, types.Siacoins(1)); ok {
			door3("siacoin", &p, func() (chain.Use, bool) {
				if w.Keys.ClassOf(p.SiacoinOutput.Address) != chain.AddrV1 {
					return chain.Use{}, false
				}
				return w.UseV1SC(p, 1), true
			})
		}
		if p, ok := bc.PickSF(func(cl int) bool { return cl == chain.AddrV1 }); ok {
			door3("siafund", &p, func() (chain.Use, bool) {
				if w.Keys.ClassOf(p.SiafundOutput.Address) != chain.AddrV1 {
					return chain.Use{}, false
				}
				return w.UseV1SF(p, 1), true
			})
		}
		for _, id := range chain.SortedIDs(s.FC) {
			e := s.FC[types.FileContractID(id)]
			fce := e.Copy()
			fce.FileContract.ValidProofOutputs = append([]types.SiacoinOutput(nil), e.FileContract.ValidProofOutputs...)
			fce.FileContract.MissedProofOutputs = append([]types.SiacoinOutput(nil), e.FileContract.MissedProofOutputs...)
			c.Count("kind:filecontract", 1)
			if fce.FileContract.WindowStart >= h && fce.FileContract.RevisionNumber < 1<<62 {
				door3("filecontract", &fce, func() (chain.Use, bool) {
					if len(fce.FileContract.ValidProofOutputs) < 2 || len(fce.FileContract.MissedProofOutputs) < 2 || fce.FileContract.RevisionNumber > 1<<62 {
						return chain.Use{}, false
					}
					return w.UseV1Revise(fce, fce.FileContract, 1), true
				})
			}
			if fce.FileContract.WindowStart <= h && h < fce.FileContract.WindowEnd {
				door3("filecontract", &fce, func() (chain.Use, bool) { return w.UseV1Proof(fce, fce.FileContract) })
			}
		}
		// expiring contracts supplied by the supplement
		b, bs := w.BuildBlock(nil, nil, chain.BlockOpts{})
		for i := range bs.ExpiringFileContracts {
			for _, m := range chain.Mutations(&bs.ExpiringFileContracts[i], noSkip) {
				m.Apply()
				err, p := x.TryBlock(w, b, bs)
				m.Undo()
				c.Count("evaluations", 1)
				if err == nil && p == nil {
					bad("door3", "filecontract-expiring", m.Path)
				} else {
					c.Count("door3_mutant_rejected", 1)
				}
			}
		}
	}
}

func useRevise(w *chain.World, e types.V2FileContractElement) chain.Use {
	return w.UseV2Revise(e, e.V2FileContract, 1)
}

func sameProof(a, b types.StateElement) bool {
	if a.LeafIndex != b.LeafIndex || len(a.MerkleProof) != len(b.MerkleProof) {
		return false
	}
	for i := range a.MerkleProof {
		if a.MerkleProof[i] != b.MerkleProof[i] {
			return false
		}
	}
	return true
}

// stablePath strips indices so that signatures identify the field, not the position.
func stablePath(p string) string {
	var out []rune
	depth := 0
	for _, r := range p {
		switch {
		case r == '[':
			depth++
		case r == ']':
			depth--
		case depth == 0:
			out = append(out, r)
		}
	}
	return string(out)
}

func replay(c *vf.Ctx, raw json.RawMessage) {
	var tc chain.TraceCase
	json.Unmarshal(raw, &tc)
	tr := tc.Trace
	for len(tr) > 0 && (strings.HasPrefix(tr[len(tr)-1], "mutation:") || strings.HasPrefix(tr[len(tr)-1], "attack:sibling:")) {
		tr = tr[:len(tr)-1]
	}
	tc.Trace = tr
	raw2, _ := json.Marshal(tc)
	m := &chain.Model{Name: "union-leafkey", Spec: chain.Spec(tc.Network), Menu: menu, LeafKey: true}
	x := chain.NewExplorer(c, m, "C04")
	if w := chain.ReplayTraceWorld(c, raw2, func(string) func(w *chain.World) []chain.Action { return menu }, "C04", opt); w != nil {
		if tc.Model == "merged" {
			if len(w.Hist) > 1 {
				a := w.Hist[len(w.Hist)-1]
				prev := *w
				prev.CS = a.PrevCS
				prev.Times = w.Times[:len(w.Times)-1]
				siblingDoor(c, x, &prev, a.B, tr)
			}
			return
		}
		doors(c, x, w, tr)
	}
}
