package c04

import (
	"fmt"

	"go.sia.tech/core/types"
	"verifmc/chain"
	"verifmc/vf"
)

// ephemeralDoor is door 4: parents created earlier in the SAME block (unassigned leaf index). A first transaction
// creates elements of several kinds (two siacoin outputs, a siafund output, its claim output, an attestation); a second
// transaction then presents, as an ephemeral siacoin / siafund parent, EVERY combination (id of any created element of
// any kind or a never-created id) x (contents of every created output of that kind). Oracle: the combination is a member
// only if the id is the id of exactly that output (diagonal, accepted as a control); every other combination names an
// element that was never created and must be rejected.
func ephemeralDoor(c *vf.Ctx, x *chain.Explorer, w *chain.World, path []string) {
	h := w.ChildHeight()
	if h < w.Net.HardforkV2.AllowHeight || h < w.Net.HardforkV2.EphemeralOutputHeight {
		return
	}
	k := w.Keys
	bc := w.NewBlockCtx()
	p, ok1 := bc.PickSC(func(cl int) bool { return cl == chain.AddrV2 }, types.Siacoins(30))
	q, ok2 := bc.PickSF(func(cl int) bool { return cl == chain.AddrV2 })
	if !ok1 || !ok2 || q.SiafundOutput.Value < 2 {
		return
	}
	third := p.SiacoinOutput.Value.Div64(3)
	t1 := types.V2Transaction{
		SiacoinInputs:  []types.V2SiacoinInput{{Parent: p.Copy()}},
		SiafundInputs:  []types.V2SiafundInput{{Parent: q.Copy(), ClaimAddress: k.Addr(chain.AddrV2)}},
		SiacoinOutputs: []types.SiacoinOutput{{Value: third, Address: k.Addr(chain.AddrV2)}, {Value: p.SiacoinOutput.Value.Sub(third), Address: k.Addr(chain.AddrV2)}},
		SiafundOutputs: []types.SiafundOutput{{Value: 1, Address: k.Addr(chain.AddrV2)}, {Value: q.SiafundOutput.Value - 1, Address: k.Addr(chain.AddrV2)}},
		Attestations:   []types.Attestation{{PublicKey: k.Pub[0], Key: "door4", Value: []byte{1}}},
	}
	t1.Attestations[0].Signature = k.Priv[0].SignHash(w.CS.AttestationSigHash(t1.Attestations[0]))
	w.SignV2(&t1)
	txid := t1.ID()
	type created struct {
		kind string
		id   types.Hash256
	}
	ids := []created{
		{"siacoin output 0", types.Hash256(t1.SiacoinOutputID(txid, 0))}, {"siacoin output 1", types.Hash256(t1.SiacoinOutputID(txid, 1))},
		{"siafund output 0", types.Hash256(t1.SiafundOutputID(txid, 0))}, {"siafund output 1", types.Hash256(t1.SiafundOutputID(txid, 1))},
		{"claim output", types.Hash256(q.ID.V2ClaimOutputID())}, {"attestation", types.Hash256(t1.AttestationID(txid, 0))},
		{"spent siacoin parent", types.Hash256(p.ID)}, {"spent siafund parent", types.Hash256(q.ID)}, {"never created", types.Hash256{0xe, 0xf}},
	}
	var lastErr error
	try := func(t2 types.V2Transaction) (accepted bool) {
		w.SignV2(&t2)
		b, bs := w.BuildBlock(nil, []types.V2Transaction{t1, t2}, chain.BlockOpts{})
		err, pv := x.TryBlock(w, b, bs)
		if pv != nil {
			x.Violate("door4|panic", fmt.Sprintf("ValidateBlock panicked on an ephemeral parent: %v", pv), path)
			return false
		}
		lastErr = err
		return err == nil
	}
	// control: the first transaction alone
	{
		b, bs := w.BuildBlock(nil, []types.V2Transaction{t1}, chain.BlockOpts{})
		if err, pv := x.TryBlock(w, b, bs); err != nil || pv != nil {
			c.Count("door4_not_applicable", 1)
			return
		}
	}
	for j, out := range t1.SiacoinOutputs {
		for _, cr := range ids {
			parent := types.SiacoinElement{ID: types.SiacoinOutputID(cr.id), StateElement: types.StateElement{LeafIndex: types.UnassignedLeafIndex}, SiacoinOutput: out}
			t2 := types.V2Transaction{SiacoinInputs: []types.V2SiacoinInput{{Parent: parent}}, SiacoinOutputs: []types.SiacoinOutput{{Value: out.Value, Address: k.Addr(chain.AddrV2b)}}}
			acc := try(t2)
			diag := cr.id == types.Hash256(t1.SiacoinOutputID(txid, j))
			c.Distinct(w.Spec.Name, "door4-sc", j, cr.kind)
			switch {
			case diag && acc:
				c.Count("door4_original_accepted", 1)
			case diag:
				x.Violate("membership-rejected|door4|siacoin", fmt.Sprintf("siacoin output %d created by the previous transaction of the block rejected as an ephemeral parent at height %d: %v", j, h, lastErr), path)
			case acc:
				x.Violate("membership-accepted|door4|siacoin|id of "+cr.kind, fmt.Sprintf("ephemeral siacoin parent with the id of the %s and the contents of siacoin output %d of the previous transaction ACCEPTED at height %d: that element was never created", cr.kind, j, h),
					append(append([]string(nil), path...), "mutation:door4:siacoin:"+cr.kind))
			default:
				c.Count("door4_mutant_rejected", 1)
			}
		}
	}
	// the genuine in-block parent (right id, right contents) but with an ASSIGNED leaf index: positions at and beyond the
	// accumulator size do not exist, positions inside it belong to other elements; with an empty, a plausible and an
	// over-long proof. Only the unassigned-index sentinel denotes an in-block parent.
	nl := w.CS.Elements.NumLeaves
	for j, out := range t1.SiacoinOutputs {
		for _, li := range []uint64{0, nl - 1, nl, nl + 1, nl + uint64(j) + 2, 1 << 40, types.UnassignedLeafIndex - 1} {
			for _, plen := range []int{0, 1, 3, 64} {
				parent := types.SiacoinElement{ID: t1.SiacoinOutputID(txid, j), StateElement: types.StateElement{LeafIndex: li, MerkleProof: make([]types.Hash256, plen)}, SiacoinOutput: out}
				t2 := types.V2Transaction{SiacoinInputs: []types.V2SiacoinInput{{Parent: parent}}, SiacoinOutputs: []types.SiacoinOutput{{Value: out.Value, Address: k.Addr(chain.AddrV2b)}}}
				c.Distinct(w.Spec.Name, "door4-leafindex", j, li, plen)
				if try(t2) {
					x.Violate("membership-accepted|door4|siacoin|assigned leaf index", fmt.Sprintf("in-block siacoin parent presented with the assigned leaf index %d (accumulator has %d leaves) and a %d-hash proof ACCEPTED at height %d", li, nl, plen, h),
						append(append([]string(nil), path...), fmt.Sprintf("mutation:door4:leafindex=%d,proof=%d", li, plen)))
				} else {
					c.Count("door4_mutant_rejected", 1)
				}
			}
		}
	}
	for j, out := range t1.SiafundOutputs {
		for _, cr := range ids {
			parent := types.SiafundElement{ID: types.SiafundOutputID(cr.id), StateElement: types.StateElement{LeafIndex: types.UnassignedLeafIndex}, SiafundOutput: out, ClaimStart: w.CS.SiafundTaxRevenue}
			t2 := types.V2Transaction{SiafundInputs: []types.V2SiafundInput{{Parent: parent, ClaimAddress: k.Addr(chain.AddrV2b)}}, SiafundOutputs: []types.SiafundOutput{{Value: out.Value, Address: k.Addr(chain.AddrV2b)}}}
			acc := try(t2)
			diag := cr.id == types.Hash256(t1.SiafundOutputID(txid, j))
			c.Distinct(w.Spec.Name, "door4-sf", j, cr.kind)
			switch {
			case diag:
				// consensus does not allow siafund outputs to be spent in the block that creates them at all: not a
				// membership matter, either verdict is fine
				c.Count("door4_siafund_diagonal_not_asserted", 1)
			case acc:
				x.Violate("membership-accepted|door4|siafund|id of "+cr.kind, fmt.Sprintf("ephemeral siafund parent with the id of the %s and the contents of siafund output %d of the previous transaction ACCEPTED at height %d: that element was never created", cr.kind, j, h),
					append(append([]string(nil), path...), "mutation:door4:siafund:"+cr.kind))
			default:
				c.Count("door4_mutant_rejected", 1)
			}
		}
	}
}
