package c04

import (
	"fmt"

	"go.sia.tech/core/consensus"
	"go.sia.tech/core/types"
	"verifmc/chain"
	"verifmc/vf"
)

// siblingDoor (door 5): multi-element transactions. For every accepted block of the transaction-combinatorics model
// and every v2 transaction in it that names two or more elements of one kind (siacoin parents, siafund parents,
// revised contracts, resolved contracts, storage-proof chain indices): element j is re-presented under the ID of its
// genuine sibling i - (a) contents, position and proof of j kept, (b) position and proof of i borrowed as well. Such an
// element was never created; whatever per-transaction bookkeeping is keyed by ID (spent sets, caches, the in-block
// element index) must not let it pass. The transaction is re-signed, the block re-sealed: only membership can object.
func siblingDoor(c *vf.Ctx, x *chain.Explorer, prev *chain.World, b types.Block, path []string) {
	if b.V2 == nil {
		return
	}
	for ti := range b.V2.Transactions {
		base := b.V2.Transactions[ti]
		// a private deep copy of the reference-carrying parts
		mk := func() types.V2Transaction {
			t := base
			t.SiacoinInputs = append([]types.V2SiacoinInput(nil), base.SiacoinInputs...)
			for i := range t.SiacoinInputs {
				t.SiacoinInputs[i].Parent = t.SiacoinInputs[i].Parent.Copy()
			}
			t.SiafundInputs = append([]types.V2SiafundInput(nil), base.SiafundInputs...)
			for i := range t.SiafundInputs {
				t.SiafundInputs[i].Parent = t.SiafundInputs[i].Parent.Copy()
			}
			t.FileContractRevisions = append([]types.V2FileContractRevision(nil), base.FileContractRevisions...)
			for i := range t.FileContractRevisions {
				t.FileContractRevisions[i].Parent = t.FileContractRevisions[i].Parent.Copy()
			}
			t.FileContractResolutions = append([]types.V2FileContractResolution(nil), base.FileContractResolutions...)
			for i := range t.FileContractResolutions {
				t.FileContractResolutions[i].Parent = t.FileContractResolutions[i].Parent.Copy()
				if sp, ok := t.FileContractResolutions[i].Resolution.(*types.V2StorageProof); ok {
					cp := *sp
					cp.ProofIndex = sp.ProofIndex.Copy()
					t.FileContractResolutions[i].Resolution = &cp
				}
			}
			return t
		}
		type ref struct {
			id *types.Hash256
			se *types.StateElement
		}
		refs := func(t *types.V2Transaction) map[string][]ref {
			m := map[string][]ref{}
			for i := range t.SiacoinInputs {
				p := &t.SiacoinInputs[i].Parent
				m["siacoin parent"] = append(m["siacoin parent"], ref{(*types.Hash256)(&p.ID), &p.StateElement})
			}
			for i := range t.SiafundInputs {
				p := &t.SiafundInputs[i].Parent
				m["siafund parent"] = append(m["siafund parent"], ref{(*types.Hash256)(&p.ID), &p.StateElement})
			}
			for i := range t.FileContractRevisions {
				p := &t.FileContractRevisions[i].Parent
				m["revised contract"] = append(m["revised contract"], ref{(*types.Hash256)(&p.ID), &p.StateElement})
			}
			for i := range t.FileContractResolutions {
				p := &t.FileContractResolutions[i].Parent
				m["resolved contract"] = append(m["resolved contract"], ref{(*types.Hash256)(&p.ID), &p.StateElement})
				if sp, ok := t.FileContractResolutions[i].Resolution.(*types.V2StorageProof); ok {
					m["storage proof chain index"] = append(m["storage proof chain index"], ref{(*types.Hash256)(&sp.ProofIndex.ID), &sp.ProofIndex.StateElement})
				}
			}
			return m
		}
		t0 := mk()
		for kind, rs := range refs(&t0) {
			if len(rs) < 2 {
				continue
			}
			for i := range rs {
				for j := range rs {
					if i == j || *rs[i].id == *rs[j].id {
						continue
					}
					for _, borrow := range []bool{false, true} {
						t := mk()
						r := refs(&t)[kind]
						*r[j].id = *r[i].id
						if borrow {
							*r[j].se = types.StateElement{LeafIndex: r[i].se.LeafIndex, MerkleProof: append([]types.Hash256(nil), r[i].se.MerkleProof...)}
						}
						prev.SignV2(&t)
						v2 := append([]types.V2Transaction(nil), b.V2.Transactions...)
						v2[ti] = t
						nb, nbs := prev.BuildBlock(b.Transactions, v2, chain.BlockOpts{})
						name := fmt.Sprintf("%s %d under the id of sibling %d", kind, j, i)
						if borrow {
							name += " (with its position and proof)"
						}
						c.Distinct(prev.Spec.Name, "door5", kind, borrow, len(rs))
						// door 1 on the same forged transaction (all its elements carry assigned leaf indices)
						acc := prev.CS.Elements
						var e1 error
						if r[j].se.LeafIndex == types.UnassignedLeafIndex {
							// an in-block (ephemeral) parent is not the accumulator's business: door 1 skips it by design
						} else if p1, _ := vf.Try(func() { e1 = acc.ValidateTransactionElements(t) }); p1 != nil {
							x.Violate("door5|panic|ValidateTransactionElements|"+kind, fmt.Sprintf("ValidateTransactionElements panicked on %s: %v", name, p1), path)
						} else if e1 == nil {
							x.Violate("door5|forged-sibling-accepted|ValidateTransactionElements|"+kind, fmt.Sprintf("ValidateTransactionElements accepted transaction %d presenting %s: that element was never created", ti, name), append(append([]string(nil), path...), "attack:sibling:"+name))
						} else {
							c.Count("door5_door1_mutant_rejected", 1)
						}
						err, pv := x.TryBlock(prev, nb, nbs)
						switch {
						case pv != nil:
							x.Violate("door5|panic|"+kind, fmt.Sprintf("ValidateBlock panicked on %s: %v", name, pv), path)
						case err == nil:
							x.Violate("door5|forged-sibling-accepted|"+kind, fmt.Sprintf("block accepted although its transaction %d presents %s: that element was never created", ti, name), append(append([]string(nil), path...), "attack:sibling:"+name))
						default:
							c.Count("door5_mutant_rejected", 1)
							c.Count("door5:"+kind, 1)
						}
					}
				}
			}
		}
	}
}

var _ consensus.State
