package c04

import (
	"fmt"

	"go.sia.tech/core/types"
	"verifmc/chain"
	"verifmc/vf"
)

// v1InBlockDoor is door 4 for v1 transactions: a v1 input names its parent only by id, and a parent created (or spent)
// earlier in the same block is looked up in the block's intermediate state. A first v1 transaction spends a siacoin and
// a siafund output and creates two siacoin outputs, two siafund outputs, a claim output and a file contract; a second
// v1 transaction then names as siacoin parent EVERY id the first transaction touched (of any kind, plus a never-created
// one), revealing the unlock conditions and spending the value of every siacoin element the first transaction touched.
// Oracle: accepted only if the id is the id of a siacoin output the first transaction created with exactly that
// value / address (diagonal, required as a control); every other combination spends an element under a name that is
// not its own (or spends it a second time) and must be rejected. Likewise for siafund parents.
func v1InBlockDoor(c *vf.Ctx, x *chain.Explorer, w *chain.World, path []string) {
	h := w.ChildHeight()
	if h >= w.Net.HardforkV2.RequireHeight {
		return
	}
	k := w.Keys
	bc := w.NewBlockCtx()
	p, ok1 := bc.PickSC(func(cl int) bool { return cl == chain.AddrV1 }, types.Siacoins(300))
	q, ok2 := bc.PickSF(func(cl int) bool { return cl == chain.AddrV1 })
	if !ok1 || !ok2 || q.SiafundOutput.Value < 2 {
		return
	}
	payout := types.Siacoins(100)
	tax := chain.CurOf(chain.RefTaxV1(w.Net, h, payout))
	out := []types.SiacoinOutput{{Value: payout.Sub(tax), Address: k.Addr(chain.AddrV1)}}
	fc := types.FileContract{WindowStart: h + 5, WindowEnd: h + 7, Payout: payout, ValidProofOutputs: out, MissedProofOutputs: out, UnlockHash: k.StdUC(0).UnlockHash()}
	rest := p.SiacoinOutput.Value.Sub(payout)
	third := rest.Div64(3)
	t1 := types.Transaction{
		SiacoinInputs:  []types.SiacoinInput{{ParentID: p.ID, UnlockConditions: k.StdUC(0)}},
		SiafundInputs:  []types.SiafundInput{{ParentID: q.ID, UnlockConditions: k.StdUC(0), ClaimAddress: k.Addr(chain.AddrV1)}},
		SiacoinOutputs: []types.SiacoinOutput{{Value: third, Address: k.Addr(chain.AddrV1)}, {Value: rest.Sub(third), Address: k.Addr(chain.AddrV1)}},
		SiafundOutputs: []types.SiafundOutput{{Value: 1, Address: k.Addr(chain.AddrV1)}, {Value: q.SiafundOutput.Value - 1, Address: k.Addr(chain.AddrV1)}},
		FileContracts:  []types.FileContract{fc},
	}
	w.SignV1Whole(&t1)
	type named struct {
		kind string
		id   types.Hash256
	}
	ids := []named{
		{"siacoin output 0", types.Hash256(t1.SiacoinOutputID(0))}, {"siacoin output 1", types.Hash256(t1.SiacoinOutputID(1))},
		{"siafund output 0", types.Hash256(t1.SiafundOutputID(0))}, {"siafund output 1", types.Hash256(t1.SiafundOutputID(1))},
		{"claim output", types.Hash256(q.ID.ClaimOutputID())}, {"file contract", types.Hash256(t1.FileContractID(0))},
		{"spent siacoin parent", types.Hash256(p.ID)}, {"spent siafund parent", types.Hash256(q.ID)}, {"never created", types.Hash256{0xe, 0xf}},
	}
	try := func(t2 types.Transaction) (bool, error) {
		w.SignV1Whole(&t2)
		b, bs := w.BuildBlock([]types.Transaction{t1, t2}, nil, chain.BlockOpts{})
		err, pv := x.TryBlock(w, b, bs)
		if pv != nil {
			x.Violate("door4-v1|panic", fmt.Sprintf("ValidateBlock panicked on a v1 in-block parent: %v", pv), path)
			return false, nil
		}
		return err == nil, err
	}
	{ // control: the first transaction alone
		b, bs := w.BuildBlock([]types.Transaction{t1}, nil, chain.BlockOpts{})
		if err, pv := x.TryBlock(w, b, bs); err != nil || pv != nil {
			c.Count("door4_v1_not_applicable", 1)
			return
		}
	}
	// siacoin elements the first transaction touched (their value / address is what a forged parent would inherit)
	type scv struct {
		what string
		id   types.Hash256
		o    types.SiacoinOutput
	}
	scs := []scv{{"siacoin output 0", types.Hash256(t1.SiacoinOutputID(0)), t1.SiacoinOutputs[0]}, {"siacoin output 1", types.Hash256(t1.SiacoinOutputID(1)), t1.SiacoinOutputs[1]},
		{"spent siacoin parent", types.Hash256(p.ID), p.SiacoinOutput}}
	for _, e := range scs {
		for _, cr := range ids {
			t2 := types.Transaction{SiacoinInputs: []types.SiacoinInput{{ParentID: types.SiacoinOutputID(cr.id), UnlockConditions: k.StdUC(0)}},
				SiacoinOutputs: []types.SiacoinOutput{{Value: e.o.Value, Address: k.Addr(chain.AddrV1b)}}}
			acc, err := try(t2)
			diag := cr.id == e.id && e.what != "spent siacoin parent"
			c.Distinct(w.Spec.Name, "door4-v1-sc", e.what, cr.kind)
			c.Count("evaluations", 1)
			switch {
			case diag && acc:
				c.Count("door4_v1_original_accepted", 1)
			case diag:
				x.Violate("membership-rejected|door4-v1|siacoin", fmt.Sprintf("%s created by the previous v1 transaction of the block rejected as a parent at height %d: %v", e.what, h, err), path)
			case acc:
				x.Violate("membership-accepted|door4-v1|siacoin|id of "+cr.kind, fmt.Sprintf("v1 siacoin input naming the id of the %s and spending the value of the %s touched by the previous transaction ACCEPTED at height %d: no siacoin output with that id and value exists", cr.kind, e.what, h),
					append(append([]string(nil), path...), "mutation:door4-v1:siacoin:"+cr.kind+"/"+e.what))
			default:
				c.Count("door4_v1_mutant_rejected", 1)
			}
		}
	}
	type sfv struct {
		what string
		id   types.Hash256
		o    types.SiafundOutput
	}
	sfs := []sfv{{"siafund output 0", types.Hash256(t1.SiafundOutputID(0)), t1.SiafundOutputs[0]}, {"siafund output 1", types.Hash256(t1.SiafundOutputID(1)), t1.SiafundOutputs[1]},
		{"spent siafund parent", types.Hash256(q.ID), q.SiafundOutput}}
	for _, e := range sfs {
		for _, cr := range ids {
			t2 := types.Transaction{SiafundInputs: []types.SiafundInput{{ParentID: types.SiafundOutputID(cr.id), UnlockConditions: k.StdUC(0), ClaimAddress: k.Addr(chain.AddrV1b)}},
				SiafundOutputs: []types.SiafundOutput{{Value: e.o.Value, Address: k.Addr(chain.AddrV1b)}}}
			acc, err := try(t2)
			diag := cr.id == e.id && e.what != "spent siafund parent"
			c.Distinct(w.Spec.Name, "door4-v1-sf", e.what, cr.kind)
			c.Count("evaluations", 1)
			switch {
			case diag && acc:
				c.Count("door4_v1_original_accepted", 1)
			case diag:
				x.Violate("membership-rejected|door4-v1|siafund", fmt.Sprintf("%s created by the previous v1 transaction of the block rejected as a parent at height %d: %v", e.what, h, err), path)
			case acc:
				x.Violate("membership-accepted|door4-v1|siafund|id of "+cr.kind, fmt.Sprintf("v1 siafund input naming the id of the %s and spending the value of the %s touched by the previous transaction ACCEPTED at height %d: no siafund output with that id and value exists", cr.kind, e.what, h),
					append(append([]string(nil), path...), "mutation:door4-v1:siafund:"+cr.kind+"/"+e.what))
			default:
				c.Count("door4_v1_mutant_rejected", 1)
			}
		}
	}
}
