// Package c06: reverting a block is the exact inverse of applying it. E1 on the
// union alphabet; after EVERY accepted block every reorg schedule revert(k<=R)
// + re-apply is executed, and revert(k) followed by competing blocks is part
// of the explored move set.
package c06

import (
	"encoding/json"
	"fmt"

	"verifmc/chain"
	"verifmc/vf"
)

func init() {
	vf.Register(&vf.Check{ID: "C06", Level: "model_checking", Run: run, Replay: replay})
}

// menuK2 is the reduced menu used for the pairs-per-block variant of the thorough tier.
func menuK2(w *chain.World) []chain.Action {
	return []chain.Action{
		chain.V1Pay(true, 2), chain.V1SF(true), chain.V1Form(1, 2, 100), chain.V1Revise("pay"), chain.V1Proof(false),
		chain.V2Pay(chain.AddrV2, true, 2), chain.V2Chain(chain.AddrV2), chain.V2SF(true), chain.V2Form(1, 2, 100), chain.V2Revise("pay"), chain.V2Renew("partial"), chain.V2Proof(), chain.V2Expire(),
	}
}

func menu(w *chain.World) []chain.Action {
	return []chain.Action{
		chain.V1Pay(true, 2), chain.V1Chain(), chain.V1SF(true), chain.V1SFChain(), chain.V2SFChain(), chain.V1Form(1, 2, 100), chain.V1Form(0, 1, 10), chain.V1Revise("pay"), chain.V1Revise("grow"), chain.V1Proof(false), chain.V1ProofFee(), chain.V1Proof(true),
		chain.Seq("v1revise-twice", chain.V1Revise("pay"), chain.V1Revise("grow")), chain.Seq("v1revise+proof", chain.V1Revise("pay"), chain.V1Proof(false)), chain.V1FormRevise(true),
		chain.Seq("v2revise-twice", chain.V2Revise("pay"), chain.V2Revise("keys")), chain.Seq("v2form+revise", chain.V2Form(1, 2, 100), chain.V2Revise("pay")), chain.Seq("v2sf+form+sf", chain.V2SF(true), chain.V2Form(1, 2, 10), chain.V2SF(false)),
		chain.V2Pay(chain.AddrV2, true, 2), chain.V2Pay(chain.AddrV1, false, 1), chain.V2Chain(chain.AddrV2), chain.V2SF(true), chain.V2Form(1, 2, 100), chain.V2Form(0, 1, 10),
		chain.V2Revise("pay"), chain.V2Revise("keys"), chain.V2Renew("partial"), chain.V2Renew("full"), chain.V2Proof(), chain.V2Expire(), chain.V2Attest(),
	}
}

var opt = chain.Options{TrackDead: true, CheckForest: true, CheckProofs: true, CheckLedger: true, CheckSupply: true, HasAtt: true}

func run(c *vf.Ctx) {
	c.Set("rule", "explicit-state DFS over the union alphabet (all ordered tuples of <=K actions per block, deviation bound D, horizon H) with revert(k<=R) as a move (followed by the same or competing blocks); after every accepted block a reorg round trip revert(k)+re-apply for every k<=R. Oracle per reverted block: RevertUpdate diffs mirror the ApplyUpdate diffs (ids, flags, contents, leaf index) in reverse order; store after revert == snapshot before apply as a set of (id, fields, leaf index, proof); every element verifies against the parent state's reference forest; re-apply gives byte-identical state encoding and update digest")
	nets := []string{"v1-eras", "mixed", "v2-only"}
	if !c.Quick() {
		nets = append(nets, "v2-eph5", "v1-mid")
	}
	R := vf.Pick(c, 2, 3)
	for _, n := range nets {
		if c.Expired() {
			break
		}
		sp := chain.Spec(n)
		m := &chain.Model{Name: "union", Spec: sp, Menu: menu, Opt: opt,
			H: vf.Pick[uint64](c, 7, 10), D: 3, K: 1, R: R}
		if sp.Name == "mixed" {
			m.SkipStart = 3
			m.H += 3
		}
		m.OnTransition = func(x *chain.Explorer, prev, w *chain.World, path []string) {
			for k := 1; k <= R && k < len(w.Hist)-int(m.SkipStart); k++ {
				c.Count("reorg_roundtrips", 1)
				c.Count(fmt.Sprintf("reorg_roundtrips_depth_%d", k), 1)
				if p := w.ReorgRoundTrip(k); p != nil {
					x.Violate(p.Sig, p.Desc, append(append([]string(nil), path...), fmt.Sprintf("reorg-roundtrip(%d)", k)))
				}
			}
		}
		{
			// transaction combinatorics (first: small): one setup block, then every ordered pair (thorough: triple) of
			// actions merged into ONE transaction (reorg round trip after every accepted block as above)
			mm := *m
			mm.Name, mm.Menu, mm.D, mm.K, mm.R = "merged", chain.MergedMenu, 2, 1, 0
			if !c.Quick() {
				mm.Menu = chain.MergedMenu3
			}
			xm := chain.NewExplorer(c, &mm, "C06")
			xm.Run()
			xm.Report(n + "/merged/")
		}
		if sp.Require > 3 {
			// a v1 contract formed, revised and / or proven inside ONE block (created AND resolved by the same block), and
			// its later life; reorg round trips as above
			mi := *m
			mi.Name, mi.Menu, mi.D, mi.K, mi.R, mi.H = "v1inblock", chain.V1InBlockMenu, 3, 1, 1, 7
			if sp.Name == "mixed" {
				mi.H += 3
			}
			xi := chain.NewExplorer(c, &mi, "C06")
			xi.Run()
			xi.Report(n + "/v1inblock/")
		}
		x := chain.NewExplorer(c, m, "C06")
		x.Run()
		x.Report(n + "/")
		if !c.Expired() {
			// block combinatorics: one setup block, then every ordered tuple of <= 3 actions in ONE block (reorg round trip
			// after every accepted block as above)
			mc := *m
			mc.Name, mc.Menu, mc.D, mc.K, mc.R, mc.H, mc.StopWhenSpent = "combo", chain.ComboMenu, 2, 3, 0, m.H-1, true
			xc := chain.NewExplorer(c, &mc, "C06")
			xc.Run()
			xc.Report(n + "/combo/")
		}
		if !c.Quick() && !c.Expired() {
			m2 := *m
			m2.Name, m2.Menu, m2.D, m2.K, m2.H = "union-pairs", menuK2, 2, 2, m.H-1
			x2 := chain.NewExplorer(c, &m2, "C06")
			x2.Run()
			x2.Report(n + "/pairs/")
		}
	}
	c.Sample(map[string]any{"network": "v2-only", "trace": []string{"block[v2form(a=1,b=2,F=100) + v2pay(class=1,fee=true,outs=2)]", "block[v2revise(pay)]", "revert(2)", "block[v2sf(split=true)]", "reorg-roundtrip(2)"}})
	c.RequireFeature("reorg_roundtrips", "reorg_roundtrips_depth_2", "feature:revert_depth_1", "feature:revert_depth_2", "feature:v1_fc_revise", "feature:v2_fc_revise", "feature:v2_fc_renew", "feature:v1_fc_expire", "feature:v2_ephemeral_spend", "feature:v2_attestation")
}

func replay(c *vf.Ctx, raw json.RawMessage) {
	var tc chain.TraceCase
	json.Unmarshal(raw, &tc)
	k := 0
	if n := len(tc.Trace); n > 0 {
		if _, err := fmt.Sscanf(tc.Trace[n-1], "reorg-roundtrip(%d)", &k); err == nil {
			tc.Trace = tc.Trace[:n-1]
		}
	}
	raw2, _ := json.Marshal(tc)
	w := chain.ReplayTraceWorld(c, raw2, func(name string) func(w *chain.World) []chain.Action {
		if name == "union-pairs" {
			return menuK2
		}
		return menu
	}, "C06", opt)
	if w != nil && k > 0 {
		if p := w.ReorgRoundTrip(k); p != nil {
			c.Violate("C06|"+p.Sig, p.Desc, tc)
		}
	}
}
