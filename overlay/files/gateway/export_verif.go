//go:build verif

package gateway

import (
	"io"

	"go.sia.tech/core/types"
)

// Forwarding functions for C19: the gateway Object codec is only reachable
// through a *mux.Stream, which cannot be fed from a byte-counting reader.
// VerifWriteX/VerifReadX mirror (*Stream).WriteX/ReadX line by line with the
// mux stream replaced by an io.Writer/io.Reader.

// VerifMaxRequestLen forwards to maxRequestLen.
func VerifMaxRequestLen(o Object) int { return o.maxRequestLen() }

// VerifMaxResponseLen forwards to maxResponseLen.
func VerifMaxResponseLen(o Object) int { return o.maxResponseLen() }

// VerifIDForObject forwards to idForObject.
func VerifIDForObject(o Object) types.Specifier { return idForObject(o) }

// VerifWriteID mirrors (*Stream).WriteID.
func VerifWriteID(w io.Writer, o Object) error {
	id := idForObject(o)
	return withV2Encoder(w, id.EncodeTo)
}

// VerifReadID mirrors (*Stream).ReadID.
func VerifReadID(r io.Reader) (id types.Specifier, err error) {
	err = withV2Decoder(r, 16, id.DecodeFrom)
	return
}

// VerifWriteRequest mirrors (*Stream).WriteRequest.
func VerifWriteRequest(w io.Writer, o Object) error { return withV2Encoder(w, o.encodeRequest) }

// VerifReadRequest mirrors (*Stream).ReadRequest.
func VerifReadRequest(r io.Reader, o Object) error {
	if o.maxRequestLen() == 0 {
		return nil
	}
	return withV2Decoder(r, o.maxRequestLen(), o.decodeRequest)
}

// VerifWriteResponse mirrors (*Stream).WriteResponse.
func VerifWriteResponse(w io.Writer, o Object) error { return withV2Encoder(w, o.encodeResponse) }

// VerifReadResponse mirrors (*Stream).ReadResponse.
func VerifReadResponse(r io.Reader, o Object) error {
	if o.maxResponseLen() == 0 {
		return nil
	}
	return withV2Decoder(r, o.maxResponseLen(), o.decodeResponse)
}
