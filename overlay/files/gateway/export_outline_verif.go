//go:build verif

package gateway

import "go.sia.tech/core/types"

// VerifEncodeOutline forwards to the unexported outline encoder (verification builds only).
func VerifEncodeOutline(e *types.Encoder, ob *V2BlockOutline) { ob.encodeTo(e) }

// VerifDecodeOutline forwards to the unexported outline decoder (verification builds only).
func VerifDecodeOutline(d *types.Decoder, ob *V2BlockOutline) { ob.decodeFrom(d) }
