//go:build verif

package gateway

import "go.sia.tech/core/types"

// Forwarding functions for the verification harness (C10/C11): the codec
// methods of gateway objects are unexported.

// VerifEncodeRequest forwards to o.encodeRequest.
func VerifEncodeRequest(o Object, e *types.Encoder) { o.encodeRequest(e) }

// VerifDecodeRequest forwards to o.decodeRequest.
func VerifDecodeRequest(o Object, d *types.Decoder) { o.decodeRequest(d) }

// VerifEncodeResponse forwards to o.encodeResponse.
func VerifEncodeResponse(o Object, e *types.Encoder) { o.encodeResponse(e) }

// VerifDecodeResponse forwards to o.decodeResponse.
func VerifDecodeResponse(o Object, d *types.Decoder) { o.decodeResponse(d) }

// VerifEncodeHeader forwards to h.encodeTo.
func VerifEncodeHeader(h *Header, e *types.Encoder) { h.encodeTo(e) }

// VerifDecodeHeader forwards to h.decodeFrom.
func VerifDecodeHeader(h *Header, d *types.Decoder) { h.decodeFrom(d) }
