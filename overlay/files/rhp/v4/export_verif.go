//go:build verif

package rhp

// VerifMaxLen forwards to the unexported per-object receive limit (C19).
func VerifMaxLen(o Object) int { return o.maxLen() }
