//go:build verif

package rhp

import "go.sia.tech/core/types"

// Forwarding functions for the verification harness (C10/C11): the codec
// methods of rhp/v4 objects are unexported.

// VerifCodec is the unexported codec pair shared by Objects, parameter
// structs and AccountToken.
type VerifCodec interface {
	encodeTo(*types.Encoder)
	decodeFrom(*types.Decoder)
}

// VerifEncode forwards to o.encodeTo.
func VerifEncode(o VerifCodec, e *types.Encoder) { o.encodeTo(e) }

// VerifDecode forwards to o.decodeFrom.
func VerifDecode(o VerifCodec, d *types.Decoder) { o.decodeFrom(d) }

// VerifMaxLen forwards to o.maxLen.
func VerifMaxLen(o Object) int { return o.maxLen() }
