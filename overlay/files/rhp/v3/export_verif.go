//go:build verif

package rhp

// Aliases for the verification harness (C10/C11).

// VerifRPCResponse aliases rpcResponse.
type VerifRPCResponse = rpcResponse

// VerifNewRPCResponse builds an rpcResponse.
func VerifNewRPCResponse(err *RPCError, data ProtocolObject) *rpcResponse {
	return &rpcResponse{err: err, data: data}
}

// VerifRPCResponseParts returns the fields of an rpcResponse.
func VerifRPCResponseParts(r *rpcResponse) (*RPCError, ProtocolObject) { return r.err, r.data }
