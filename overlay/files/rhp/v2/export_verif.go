//go:build verif

package rhp

// Aliases for the verification harness (C10/C11): these handshake / framing
// objects have exported codec methods but unexported type names.

// VerifRPCResponse aliases rpcResponse.
type VerifRPCResponse = rpcResponse

// VerifLoopKeyExchangeRequest aliases loopKeyExchangeRequest.
type VerifLoopKeyExchangeRequest = loopKeyExchangeRequest

// VerifLoopKeyExchangeResponse aliases loopKeyExchangeResponse.
type VerifLoopKeyExchangeResponse = loopKeyExchangeResponse

// VerifNewRPCResponse builds an rpcResponse.
func VerifNewRPCResponse(err *RPCError, data ProtocolObject) *rpcResponse {
	return &rpcResponse{err: err, data: data}
}

// VerifRPCResponseParts returns the fields of an rpcResponse.
func VerifRPCResponseParts(r *rpcResponse) (*RPCError, ProtocolObject) { return r.err, r.data }
