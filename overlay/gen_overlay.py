#!/usr/bin/env python3
"""Generate the go build overlay for verification builds.

usage: gen_overlay.py <repo> <builddir> <overlaydir>

 * every file under <overlaydir>/files/<pkg>/<name>.go is added to the repository
   package <pkg> as a NEW file (refuses to shadow an existing file: add-only);
 * <overlaydir>/vsync/vsync.go becomes the virtual package go.sia.tech/core/vsync;
 * every non-test .go file of types/ and consensus/ that imports "sync" is copied
   from the CURRENT working tree with that single import line rewritten to
   sync "go.sia.tech/core/vsync" (C09 scheduling points at sync.Pool.Get/Put).
"""
import json, os, re, sys

repo, build, ov = sys.argv[1:4]
replace = {}
files_root = os.path.join(ov, "files")
for d, _, fs in os.walk(files_root):
    for f in fs:
        if not f.endswith(".go"):
            continue
        rel = os.path.relpath(os.path.join(d, f), files_root)
        target = os.path.join(repo, rel)
        if os.path.exists(target):
            print("overlay would shadow existing file", target, file=sys.stderr)
            sys.exit(1)
        if not os.path.isdir(os.path.dirname(target)):
            continue  # package removed from the repository: nothing to hook
        replace[target] = os.path.join(d, f)
replace[os.path.join(repo, "vsync", "vsync.go")] = os.path.join(ov, "vsync", "vsync.go")
gen = os.path.join(build, "gen")
os.makedirs(gen, exist_ok=True)
imp = re.compile(r'^(\s*)"sync"\s*$', re.M)
for pkg in ("types", "consensus"):
    pdir = os.path.join(repo, pkg)
    if not os.path.isdir(pdir):
        continue
    for f in sorted(os.listdir(pdir)):
        if not f.endswith(".go") or f.endswith("_test.go"):
            continue
        src = open(os.path.join(pdir, f)).read()
        if not imp.search(src):
            continue
        out = imp.sub(r'\1sync "go.sia.tech/core/vsync"', src, count=1)
        outp = os.path.join(gen, pkg + "__" + f)
        old = open(outp).read() if os.path.exists(outp) else None
        if old != out:
            open(outp, "w").write(out)
        replace[os.path.join(pdir, f)] = outp
tmp = os.path.join(build, "overlay.json.new")
json.dump({"Replace": replace}, open(tmp, "w"), indent=1, sort_keys=True)
dst = os.path.join(build, "overlay.json")
if not os.path.exists(dst) or open(dst).read() != open(tmp).read():
    os.replace(tmp, dst)
else:
    os.remove(tmp)
