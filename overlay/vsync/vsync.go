//go:build verif

// Package vsync is a drop-in replacement for the parts of package sync that
// go.sia.tech/core uses. It exists only in verification builds (it is injected
// with `go build -overlay`, never committed to the repository). Everything is
// an alias of the real sync package except Pool, whose Get and Put consult an
// optional hook so that a controlled scheduler can (a) make them scheduling
// points and (b) decide which pooled object Get returns. With no hook installed
// Pool is a plain sync.Pool.
package vsync

import (
	"sync"
	"sync/atomic"
)

type (
	Mutex     = sync.Mutex
	RWMutex   = sync.RWMutex
	WaitGroup = sync.WaitGroup
	Once      = sync.Once
	Map       = sync.Map
	Cond      = sync.Cond
	Locker    = sync.Locker
)

var (
	NewCond        = sync.NewCond
	OnceFunc       = sync.OnceFunc
)

// Hooks intercept pool operations.
type Hooks struct {
	// Get is called instead of the real Get. items are the objects currently
	// pooled (most recently returned last); it returns the index of the object
	// to hand out, or -1 for a fresh object.
	Get func(p *Pool, items []any) int
	// Put is called before the object is returned to the pool.
	Put func(p *Pool, x any)
}

var hook atomic.Pointer[Hooks]

// SetHooks installs (or, with nil, removes) the hooks.
func SetHooks(h *Hooks) { hook.Store(h) }

// Pool mirrors sync.Pool.
type Pool struct {
	New func() any

	real  sync.Pool
	mu    sync.Mutex
	items []any // only used while hooks are installed
}

// Get mirrors sync.Pool.Get.
func (p *Pool) Get() any {
	h := hook.Load()
	if h == nil {
		if x := p.real.Get(); x != nil {
			return x
		}
		if p.New != nil {
			return p.New()
		}
		return nil
	}
	p.mu.Lock()
	items := append([]any(nil), p.items...)
	p.mu.Unlock()
	i := h.Get(p, items)
	p.mu.Lock()
	defer p.mu.Unlock()
	if i >= 0 && i < len(p.items) {
		x := p.items[i]
		p.items = append(p.items[:i], p.items[i+1:]...)
		return x
	}
	if p.New != nil {
		return p.New()
	}
	return nil
}

// Put mirrors sync.Pool.Put.
func (p *Pool) Put(x any) {
	h := hook.Load()
	if h == nil {
		p.real.Put(x)
		return
	}
	h.Put(p, x)
	p.mu.Lock()
	p.items = append(p.items, x)
	p.mu.Unlock()
}

// Drain empties the controlled item list (between explorations).
func (p *Pool) Drain() {
	p.mu.Lock()
	p.items = nil
	p.mu.Unlock()
}
