//go:build verif

// Package vsync is a drop-in replacement for the parts of package sync that
// go.sia.tech/core uses. It exists only in verification builds (it is injected
// with `go build -overlay`, never committed to the repository). Everything is
// an alias of the real sync package except Pool, whose Get and Put consult an
// optional hook so that a controlled scheduler can (a) make them scheduling
// points and (b) decide which pooled object Get returns. With no hook installed
// Pool is a plain sync.Pool.
package vsync

import (
	"sync"
	"sync/atomic"
)

type (
	Mutex     = sync.Mutex
	RWMutex   = sync.RWMutex
	WaitGroup = sync.WaitGroup
	Once      = sync.Once
	Map       = sync.Map
	Cond      = sync.Cond
	Locker    = sync.Locker
)

var (
	NewCond        = sync.NewCond
	OnceFunc       = sync.OnceFunc
)

// Hooks intercept pool operations. While hooks are installed the caller
// guarantees that only one goroutine at a time executes pool operations (the
// controlled scheduler runs one thread at a time).
type Hooks struct {
	// BeforeGet is a scheduling point; it then chooses which pooled object to
	// hand out: n objects are pooled (most recently returned has index n-1);
	// return an index in [0,n) or -1 for a fresh object.
	BeforeGet func(p *Pool, n int) int
	AfterGet  func(p *Pool)
	BeforePut func(p *Pool)
	AfterPut  func(p *Pool)
	// OnGet / OnPut observe the object handed out / returned (evidence only: hand-offs between callers).
	OnGet func(p *Pool, x any, fresh bool)
	OnPut func(p *Pool, x any)
}

var hook atomic.Pointer[Hooks]

// SetHooks installs (or, with nil, removes) the hooks.
func SetHooks(h *Hooks) { hook.Store(h) }

// Pool mirrors sync.Pool.
type Pool struct {
	New func() any

	real  sync.Pool
	mu    sync.Mutex
	items []any // only used while hooks are installed
}

var poolsMu sync.Mutex
var pools []*Pool

// DrainAll empties the controlled item lists of every pool that was used under hooks.
func DrainAll() {
	poolsMu.Lock()
	defer poolsMu.Unlock()
	for _, p := range pools {
		p.mu.Lock()
		p.items = nil
		p.mu.Unlock()
	}
}

func (p *Pool) register() {
	poolsMu.Lock()
	defer poolsMu.Unlock()
	for _, q := range pools {
		if q == p {
			return
		}
	}
	pools = append(pools, p)
}

// Get mirrors sync.Pool.Get.
func (p *Pool) Get() any {
	h := hook.Load()
	if h == nil {
		if x := p.real.Get(); x != nil {
			return x
		}
		if p.New != nil {
			return p.New()
		}
		return nil
	}
	p.register()
	p.mu.Lock()
	n := len(p.items)
	p.mu.Unlock()
	i := h.BeforeGet(p, n)
	var x any
	p.mu.Lock()
	if i >= 0 && i < len(p.items) {
		x = p.items[i]
		p.items = append(p.items[:i:i], p.items[i+1:]...)
	}
	p.mu.Unlock()
	fresh := x == nil
	if x == nil && p.New != nil {
		x = p.New()
	}
	if h.OnGet != nil {
		h.OnGet(p, x, fresh)
	}
	if h.AfterGet != nil {
		h.AfterGet(p)
	}
	return x
}

// Put mirrors sync.Pool.Put.
func (p *Pool) Put(x any) {
	h := hook.Load()
	if h == nil {
		p.real.Put(x)
		return
	}
	p.register()
	if h.BeforePut != nil {
		h.BeforePut(p)
	}
	p.mu.Lock()
	p.items = append(p.items, x)
	p.mu.Unlock()
	if h.OnPut != nil {
		h.OnPut(p, x)
	}
	if h.AfterPut != nil {
		h.AfterPut(p)
	}
}
