#!/bin/bash
# runall.sh [tier] - run every claimed check once, print one line each
tier="${1:-quick}"
cd "$(dirname "$0")/.."
for id in $(python3 -c "import json; print(' '.join(c['property_id'] for c in json.load(open('MANIFEST.json'))['checks']))"); do
  s=$(date +%s); out=$(./run.sh $id $tier 2>&1); rc=$?; e=$(date +%s)
  echo "$id rc=$rc $((e-s))s $(echo "$out" | tail -1 | cut -c1-160)"
  echo "$out" | grep -E "^(VIOLATION|HARNESS)" | head -5
done
