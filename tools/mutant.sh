#!/bin/bash
# mutant.sh <patch.diff> <ID> [tier]   -- apply a patch to a scratch copy of /repo, run one check against it, expect VIOLATION.
# Options via env: RUN_TESTS=1 also runs the repository's own tests on the scratch copy first.
set -u
VHOME="$(cd "$(dirname "$0")/.." && pwd)"
patch="$(realpath "$1")"; id="$2"; tier="${3:-quick}"
scratch="/var/tmp/verif-scratch.$$"
rm -rf "$scratch"; mkdir -p "$scratch"
rsync -a --exclude .git /repo/ "$scratch/repo/"
cleanup() { rm -rf "$scratch" "$VHOME"/.build/$(echo -n "$scratch/repo" | sha256sum | cut -c1-12); }
trap cleanup EXIT
if ! (cd "$scratch/repo" && patch -p1 --quiet < "$patch"); then echo "MUTANT-PATCH-FAILED $patch"; exit 3; fi
export GOFLAGS=-mod=mod GOPROXY=off GOSUMDB=off GOTOOLCHAIN=local
if [ "${RUN_TESTS:-0}" = 1 ]; then
  if ! (cd "$scratch/repo" && go1.26 test -vet=off -count=1 ./... >/dev/null 2>&1); then echo "MUTANT-FAILS-OWN-TESTS $patch"; fi
fi
mkdir -p "$scratch/vroot"; cp "$VHOME"/known_findings.json "$scratch/vroot/"
out=$(VERIF_REPO="$scratch/repo" VERIF_NO_EVIDENCE=1 VERIF_ROOT="$scratch/vroot" "$VHOME"/run.sh "$id" "$tier" 2>&1); rc=$?
mkdir -p "$scratch/vroot"
if [ $rc -eq 1 ] && echo "$out" | grep -q "^VIOLATION property=$id"; then
  echo "CAUGHT $id $(basename "$patch"): $(echo "$out" | grep -A1 '^VIOLATION' | grep signature | head -3 | tr '\n' ' ')"
  exit 0
fi
echo "MISSED $id $(basename "$patch") rc=$rc"; echo "$out" | tail -5
exit 1
