#!/bin/bash
VHOME="$(cd "$(dirname "$0")/.." && pwd)"
# regress.sh [parallelism]  -- detection regression: every mutants/cNN_*.diff against check CNN and every seeded/<ID>-x/patch.diff
# against the check of its property, quick tier; prints one line per patch and a summary. Scratch copies live under /var/tmp.
P="${1:-4}"
cd "$VHOME"
out=/var/tmp/verif-regress; rm -rf "$out"; mkdir -p "$out"
jobs=()
for m in mutants/*.diff; do
  id=$(basename "$m" | cut -c1-3 | tr a-z A-Z)
  jobs+=("$m $id")
done
for d in seeded/*/; do
  id=$(basename "$d" | cut -c1-3)
  # a seed whose lines were touched by a later fix: commit carries the same change rebased onto the current tree
  pf="${d}patch.diff"; [ -f "${d}patch.rebased.diff" ] && pf="${d}patch.rebased.diff"
  # the check that catches it (meta.json "regress_check" when it is not the check of the seed's own property)
  alt=$(python3 -c "import json,sys;print(json.load(open('${d}meta.json')).get('regress_check',''))" 2>/dev/null)
  [ -n "$alt" ] && id="$alt"
  jobs+=("$pf $id")
done
printf '%s\n' "${jobs[@]}" | xargs -P "$P" -L 1 bash -c 'r=$(tools/mutant.sh "$0" "$1" quick 2>&1 | grep -m1 "^CAUGHT\|^MISSED\|^MUTANT" | cut -c1-160); [ -z "$r" ] && r="NO-VERDICT $1 $0"; echo "$r" >> /var/tmp/verif-regress/results.txt; echo "$r"'
echo "== summary"; grep -c "^CAUGHT" "$out/results.txt"; grep -v "^CAUGHT" "$out/results.txt"
