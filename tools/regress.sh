#!/bin/bash
VHOME="$(cd "$(dirname "$0")/.." && pwd)"
# regress.sh [parallelism]  -- detection regression: every mutants/cNN_*.diff against check CNN and every seeded/<ID>-x/patch.diff
# against the check of its property, quick tier; prints one line per patch and a summary. Scratch copies live under /var/tmp.
P="${1:-4}"
cd "$VHOME"
out=/var/tmp/verif-regress; rm -rf "$out"; mkdir -p "$out"
jobs=()
for m in mutants/*.diff; do
  id=$(basename "$m" | cut -c1-3 | tr a-z A-Z)
  jobs+=("$m $id")
done
for d in seeded/*/; do
  id=$(basename "$d" | cut -c1-3)
  jobs+=("${d}patch.diff $id")
done
printf '%s\n' "${jobs[@]}" | xargs -P "$P" -L 1 bash -c 'r=$(tools/mutant.sh "$0" "$1" quick 2>&1 | head -1 | cut -c1-160); echo "$r" >> /var/tmp/verif-regress/results.txt; echo "$r"'
echo "== summary"; grep -c "^CAUGHT" "$out/results.txt"; grep -v "^CAUGHT" "$out/results.txt"
