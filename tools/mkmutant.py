#!/usr/bin/env python3
"""mkmutant.py <name> <repo-relative-file> <old> <new>  -> writes /verif/mutants/<name>.diff (old must occur exactly once)"""
import sys, difflib
name, rel, old, new = sys.argv[1:5]
src = open('/repo/' + rel).read()
assert src.count(old) == 1, "old text occurs %d times" % src.count(old)
dst = src.replace(old, new)
d = difflib.unified_diff(src.splitlines(True), dst.splitlines(True), 'a/' + rel, 'b/' + rel)
open(__import__('os').path.join(__import__('os').path.dirname(__import__('os').path.dirname(__import__('os').path.abspath(__file__))), 'mutants', name + '.diff'), 'w').write(''.join(d))
print("wrote", name)
