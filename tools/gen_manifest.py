#!/usr/bin/env python3
"""Generate /verif/MANIFEST.json from the table below (single source of truth)."""
import json

BASELINE_OFF = ("cd /repo && GOFLAGS=-mod=mod GOPROXY=off GOSUMDB=off GOTOOLCHAIN=local "
                "go1.26 test -vet=off -count=1 -timeout 25m ./...")

# id -> (engine, level, technique, text, note, design_ref)
CHECKS = {
    "C01": ("E1", "model_checking",
            "explicit-state model checking of the real ValidateBlock/ApplyBlock/RevertBlock over bounded block histories, lock-step with an independent reference ledger",
            "Every state of every block history over four focused alphabets (payments, siafunds, v1 contracts, v2 contracts; all ordered tuples of <=K actions per block, <=D non-empty blocks, reverts <=R, horizon H) on 4-6 compact networks covering all hardfork eras satisfies the supply equation, store==ledger element by element, constant siafunds, exact claims and fees==miner payout; exhaustive within the stated bounds.",
            "Independent reference ledger (math/big arithmetic) and naive Merkle forest; hashes/signatures treated as uninterpreted tokens (state merging by ID-free canonical key); histories beyond the bounds not covered. The supply equation is strengthened inductively: a live v2 contract with missed host value above its host output has its expiration played out on a clone and the overpayment measured. Known finding: below the ephemeral-output height such a revision is accepted (legacy rule) and its expiry creates siacoins.", "3/C01"),
    "C02": ("E1", "model_checking",
            "explicit-state exploration + exhaustive second-use attack menu against the real ValidateBlock at every reachable state",
            "At every distinct state of a union-alphabet exploration, for one canonical live element of every kind, every ordered pair (first use, second use) x every placement (same transaction, same block, same block after an in-block revision of the contract, next block stale proof, next block maintained proof, after reorg) is built, re-signed and sealed; all must be rejected, and each use alone (control) must be accepted. Along all accepted histories the reference ledger never sees an element spent twice.",
            "Control experiments guard against vacuous rejections; bounds H/D/K as reported in evidence.", "3/C02"),
    "C03": ("E1", "model_checking",
            "exhaustive single-point tampering (reflection walk + structured substitutions + compensating value moves) of 20 signed templates at one state per height of every network family, through the real ValidateBlock",
            "At every height of each network family (contracts formed and keys rotated on the way) every applicable signed template - v1 whole/partial/multisig/timelocked/siafund/dev-address/revision/foundation, v2 pk/threshold+opaque/hash-lock/above-after/legacy-uc/siafund/formation/revision/renewal/attestation/foundation - is accepted untampered and rejected after every single-point tampering of any field in its signed set (block re-sealed, never re-signed), after every sum-preserving move of one hasting between two currency fields, after substituting other keys/policies/opaque branches/surplus or garbage signatures; foundation updates authorised by non-foundation keys are rejected; v1 signatures are not replayable across fork eras.",
            "Fields outside a template's signed set are counted as unspecified. Known finding: v1 signature length is not checked (trailing bytes ignored). Panics under tampering are left to C10.", "3/C03"),
    "C04": ("E1", "model_checking",
            "explicit-state exploration + exhaustive single-mutation menu (reflection walk) through the three membership doors of the real code",
            "At every distinct state (all six leaf kinds; live, spent, resolved, reverted-branch elements; leaf positions in the state key) every tracked element is presented unmodified (accepted iff live per reference ledger) and under every single field / index / proof mutation (rejected) to ValidateTransactionElements; one canonical element per kind under every mutation to ValidateV2Transaction (re-balanced, re-signed) and to ValidateBlock's v1 supplement check.",
            "Reference ledger decides liveness; mutations are single-point (one field +-1 / byte flip / proof edit); hash collisions assumed absent.", "3/C04"),
    "C05": ("E1", "model_checking",
            "exhaustive (size, updated subset, growth) enumeration and explicit-state exploration of apply/revert interleavings against a naive reference Merkle forest with independent leaf hashing",
            "For every accumulator size up to N, every subset of live leaves updated in a block (all subsets for <=10 leaves), every growth 2..9, follow-up blocks and revert/re-apply of depth <=3, plus a union-alphabet exploration with revisions/resolutions/attestations: every tracked element's maintained proof equals the reference path with its current spent status, roots and leaf count equal the naive forest, ForEachTreeNode equals the reference nodes.",
            "Leaf positions are taken from the implementation's diffs (range/uniqueness checked); leaf hashes and all interior nodes are recomputed independently (x/crypto blake2b).", "3/C05"),
    "C06": ("E1", "model_checking",
            "explicit-state exploration of reorg schedules over the real ApplyBlock/RevertBlock with snapshot-equality and byte-identical re-apply oracles",
            "For every accepted block of every explored history and every k<=R: RevertUpdate diffs mirror the ApplyUpdate diffs in reverse order, the store returns to exactly the pre-block snapshot (ids, fields, leaf indices, proofs), every element verifies against the parent state's reference forest, and re-applying yields byte-identical state encodings and update digests; revert(k)+competing blocks are part of the explored move set.",
            "Store semantics follow the documented diff semantics (created/spent/revised/resolved); bounds as reported.", "3/C06"),
    "C07": ("E1", "model_checking",
            "explicit-state exploration of v1/v2 contract life cycles with an independent payout ledger, plus exhaustive (file shape x challenge index x era) enumeration of storage proofs through the real ValidateBlock",
            "(a) Over all explored contract histories (formation shapes, revision kinds, renewals, proofs, expirations, pair blocks, reverts) every contract resolves at most once and creates exactly the outputs of its latest accepted revision (final outputs + rollover on renewal, missed on expiry) with the right maturity; every static rule violation (changed totals, lower revision number, raised missed host value, changed collateral, filesize>capacity, duplicate proofs, proof+outputs) is rejected while its rule-abiding control is accepted. (b) For every file shape and every challenge index in the three v1 leaf eras and v2: the honest proof is accepted and every corruption (other leaf, flipped data/proof hash, dropped/extra hash, other size, other chain index) is rejected.",
            "Known finding registered: the v1 verifier accepts a shorter proof of another leaf in unbalanced trees (consensus rule, not repaired). Legacy era quirks (era-2 exact multiples of 64, empty files before the storage-proof fork) are counted as unspecified, not asserted.", "3/C07"),
    "C08": ("E1", "model_checking",
            "exhaustive boundary sweep: every rule x network configuration x every probe height around the bound, through the real ValidateBlock, against an independent rule table",
            "For every height/time rule of the statement (maturity of every delayed output kind for v1 and v2 spenders, v1 unlock-condition timelocks on siacoin inputs, siafund inputs and contract revisions, v1 signature timelocks, v2 above/after/legacy-policy locks on siacoin and siafund inputs compared with the parent height / median of the last 11 timestamps, v1 and v2 revision, proof, expiration and formation windows, v1/v2 transaction version heights) on 12 (thorough 60) network configurations (maturity delay 0..3 (0..5) x allow/require placements) the otherwise-valid transaction is rejected at every probed height below the bound and accepted from the bound on (both directions are violations).",
            "Rule table (Appendix B of DESIGN.md) written from the statement; renewal timing w.r.t. the old contract and v1 proofs at the window-end height are not asserted.", "3/C08"),
    "C09": ("E3", "model_checking",
            "stateless DFS over thread interleavings under a controlled cooperative scheduler (preemption-bounded, adversarial sync.Pool object choice) + sequential purity bundle on every explored transition + separate free-running race-detector pass",
            "(a) On every transition of a union-alphabet exploration and on invalid variants of every accepted block: inputs (state, block, every proof, supplement) bit-identical before/after ValidateBlock, ApplyBlock, RevertBlock and per-transaction MidState validation; repeated calls and a decode(encode()) copy give identical verdict, state bytes and update digest; per-transaction verdict equals the block verdict; returned updates and Copy()/DeepCopy() share no memory with the inputs. (b) Every interleaving of 2-3 callers (ValidateBlock, ApplyBlock, RevertBlock, multiproof encoding, IDs/sighashes, per-transaction validation) on shared inputs and both hasher pools, at scheduling points before every pool Get and after every pool Put, up to the stated preemption bound, with every choice of pooled object within the data-deviation bound: each result equals its sequential reference, inputs unchanged, exactly one global outcome. (c) The same bodies free-running under -race.",
            "Scheduling points only at synchronisation operations (sequential consistency); unsynchronised accesses are the race detector's job (a detector, not exhaustive). sync.Pool is replaced in verification builds by the vsync shim through a build overlay.", "3/C09"),
    "C10": ("E4", "fault_enumeration",
            "bounded exhaustive hostile-input enumeration: every prefix / byte substitution / 8-byte length-window substitution of a capped corpus of valid encodings through every decoder and text entry point in an address-space-limited worker subprocess; exhaustive single structural mutations of every accepted block shape of an explicit-state chain exploration through every Validate* entry point",
            "(a) For all 185 binary codecs (inventory cross-checked against the source with go/parser at run time) and 46 text/JSON entry points, for every base encoding of the capped corpus: every proper prefix, every byte x 7 substitutions, every 8-byte window x 8 extreme little-endian values (texts: every position x 12 symbols, deletions, duplications, length changes), plus policies nested 31..300000 deep: the decoder returns (worker alive, no panic) and allocates at most 64 MiB + 1024*len(input). (b) At every accepted block shape of a union-alphabet exploration on four network families, every single structural mutation of block and supplement (integers/currencies to 0,1,2^63,2^64-1,2^128-1, proofs resized, out-of-range indices, nil pointers/interfaces, wrong resolution types, deep/wide policies; as is and re-sealed) through ValidateBlock, ValidateOrphan, ValidateHeader, ValidateTransaction, ValidateV2Transaction, ValidateTransactionElements never panics; accepted mutants are applied and reverted without panic.",
            "Corpus caps (bases per codec, bytes per base) are reported in evidence; inputs are single-point variations of valid encodings, not all byte strings. Fixed in /repo: a412166, 6e1d13c, 1fcdc37, e82d080, be7c22f (validation panics), 3d45940, 9b3e8e2 (unbounded decoder allocations), 6472682 (over-long hex).", "3/C10"),
    "C11": ("E2", "exploration",
            "bounded exhaustive enumeration of structured value domains (seven generic profiles, sum-type variants, chain-derived values, every single-leaf deviation; thorough: pairs) for every codec of a source-cross-checked inventory, against round-trip, canonicity, field-completeness, independent wire-layout and prefix oracles",
            "For all 185 codec entries: decode(encode(v)) equals v up to the documented normalisations; re-encoding is byte-identical and deterministic; every leaf not in the explicit not-transmitted table changes the bytes and every listed leaf does not; the bytes of 58 consensus-critical types equal an independent table-driven layout (incl. sans-signature forms via independently hashed IDs and an independent multiproof computation); every proper prefix of every base encoding (and of short deviations) fails to decode; bools other than 0/1 are rejected.",
            "Layout table written from the protocol description (mc/checks/c11/wirespec.go). Prefix oracle on deviations is limited to short encodings (scope in evidence); thorough pairs are capped at 150 deviation points per base (reported as non-exhaustive).", "3/C11"),
    "C12": ("E2", "exploration",
            "bounded exhaustive single/pairwise field-mutation enumeration (reflection walk with a complete field classification) over transaction/block templates; all-pairs distinctness of derived IDs; era replay through the real ValidateBlock",
            "Every single (thorough: pairwise) field mutation of rich v1/v2 transaction templates changes the ID and all derived IDs iff the field is classified effect-bearing (unclassified fields fail the run); all derived-ID kinds x indices x parents are pairwise distinct; sighashes bind purpose (independent preimage model) and era (hash level and end-to-end replay across every era pair); every content mutation of real v1/v2 blocks is rejected or changes the ID, v2 commitments bind every encoded state field and the miner address.",
            "Classification table written from the statement (Appendix C). Fixed: V2SiafundInput.ClaimAddress was not bound (repo commit 9ffdb79). Known finding: input-less v1 transactions carry no replay prefix (legacy consensus).", "3/C12"),
    "C13": ("E1", "model_checking",
            "explicit-state exploration of header chains (all timestamp-delta sequences of length L from base states before every era boundary) over the real ApplyHeader/ApplyBlock/ValidateHeader with a math/big reference",
            "For 8-18 parameter sets (intervals, initial targets, fork placements incl. 1000-block pre-Oak prefixes) and four prefix regimes, every sequence of L timestamp moves (minimum allowed by the median rule, +0, +interval/3, +interval, +3 intervals, +3 h, +100 years, +-1 s) from bases placed before every era boundary: no panic; per-era clamp (pre-Oak x0.4..x2.5 only at heights = 0 mod 500, Oak +-0.4% except the ASIC reset, v2 +-D/250, final cut +-max(D/250,1) and never 0); total work never decreases and strictly increases under v2; target/difficulty are each other's floored inverse in the era's direction, deprecated fields zero after the final cut; ApplyBlock on an empty block equals ApplyHeader field by field; ValidateHeader accepts iff parent, median time, nonce factor and work all hold (full truth table at visited states); SufficientlyHeavierThan asymmetric on all ordered pairs of up to 2000 states.",
            "Saturation zone (results >= 2^255) excluded from the clamp oracle only; bounds L and parameter sets as reported.", "3/C13"),
    "C14": ("E2", "exploration",
            "bounded exhaustive enumeration of policy trees x witness vectors x lock neighbourhoods against an independent recursive evaluator and an independent address derivation",
            "All policy trees of the enumerated strata (every leaf kind and every unlock-conditions root; every threshold shape within the stated arity/depth/node budgets, every N in 0..arity+1) x every signature / preimage vector of every length 0..(consuming leaves+1) x heights h-1,h,h+1 and median times t-1s,t,t+1s, plus every ordered (lock, height) pair of a 19-value uint64 boundary set and (instant, median) pair of 14 instants (years 0..9999) in four embeddings and as unlock-conditions timelock: Verify agrees with the independent evaluator (accept/reject only); Address is invariant under every opaque substitution of sub-policies and a needed child made opaque turns acceptance into rejection; bit-flipped witnesses reject; complexity limits (255/256 children, 1024/1025 sub-policies, decode depth limit and limit+1) reject at limit+1 only; fast-path standard addresses equal the generic derivations and a naive Merkle root.",
            "Nested trees are exhaustive only within explicit node budgets / reduced alphabets (reported in evidence; exhaustive=false is therefore always set, `stated_space_completed` says whether the described space was finished). Cases where the statement is silent (unreached entropy keys) are counted, not asserted.", "3/C14"),
    "C15": ("E2", "exploration",
            "bounded exhaustive enumeration (all ordered pairs of a boundary set x all operations) against math/big",
            "Every Currency operation on every ordered pair of a boundary set (bit boundaries, limb mixes, divisors of every "
            "normalisation shift, decimal unit boundaries) agrees with math/big including overflow/underflow/div-by-zero "
            "reporting; every text form of every value parses back; invalid texts rejected. Exhaustive over the stated set.",
            "math/big is the reference; values outside the boundary set are not covered.", "3/C15"),
    "C16": ("E2", "exploration",
            "bounded exhaustive enumeration of ranges / subsets / batches / corruptions against a naive reference Merkle tree (x/crypto blake2b), on both CPU paths",
            "Optimised roots (SumLeaf/SumPair/SumLeaves/SumNodes on every single-bit input, sector/reader/meta roots on 14 structured sector contents and every chunking) equal the naive tree on the AVX2 and generic paths; for all (start,end) over the bit-boundary set in a sector, all (n,start,end) with n<=N, all append batches and every non-empty freed subset (all permutations up to size 3) the builder's proof is accepted with the reference old/new roots, has the advertised size, and every single-element corruption (proof hash, datum, index, root, length where fixed) is rejected.",
            "Structured sector contents, not all contents; sizes above the bounds not covered. Fixed: VerifyDiffProof/VerifyFreeSectorsProof accepted a valid proof with a wrong freed index (repo commit cc2b625).", "3/C16"),
    "C17": ("E1", "model_checking",
            "explicit-state breadth-first exploration of constructor-call sequences from NewContract over a boundary-relative move alphabet, every constructed contract / revision / renewal validated by the real consensus code on a chain, against a math/big reference; exhaustive dense enumeration of v1 payout targets",
            "For 491 grid points (typical price table + all single and pairwise deviations to {0,1,2^70}; fundings 1/0, exact, exact+-1, typical, 2^118; proof-height slack, tip offsets, miner fees) every sequence of <=3 (thorough 4) constructor calls (append, free, sector roots, fund, replenish, PayWithContract, renew, refresh partial/full; ~53 boundary-relative moves evaluated at every node, one representative per move class expanded) satisfies: request Validate verdict equals the reference; revisions conserve the total, charge exactly the reported usage, risk exactly the reported collateral, never raise the missed host value, leave total collateral unchanged, fail cleanly (input untouched) exactly when funds are insufficient; renewals/refreshes split the old value exactly into final outputs + rollover, rollover <= new contract cost, renter cost + host cost + rollover = new contract value + tax + miner fee; every result is accepted by ValidateBlock/ValidateV2Transaction (formation and expanding renewals are applied on chain) and every off-by-one negative control is rejected. v1: every payout target 0..200000 plus 1587 boundary values through rhp/v2 and rhp/v3 Prepare*/Calculate*/cost functions satisfies the tax equation and ValidateTransaction; PayByContract sequences keep both sums.",
            "Domain restricted to parameter products fitting 128 bits (outside, the cost functions panic on overflow by design; counted, not asserted). Only one representative per move class produces successors (boundary variants are evaluated at every node but not expanded). Observed outside the property: rhp/v4 renew/refresh/form request Validate methods panic on Currency overflow for a renter-chosen collateral of 2^128-1 (sum computed before the bound check); revision request Validate methods have no height guard.", "3/C17"),
    "C18": ("E1", "model_checking",
            "exhaustive enumeration of v2 transaction sets over every accumulator shape plus explicit-state exploration; every block round-tripped through the real multiproof/outline codecs",
            "For every accumulator size up to N and every subset of <=3 live leaves (all subsets for <=10) spread over 1-3 transactions (+ephemeral chains), and for every accepted block of a union-alphabet exploration (storage-proof chain-index elements, ephemeral parents, duplicate leaves), V2TransactionsMultiproof / V2BlockData / V2Block encode->decode restores every proof bit-for-bit with unchanged ID, commitment and validity; for every block with <=4 transactions every omitted subset x every permutation of every candidate sub-pool completes to exactly the original block or reports exactly the missing hashes; outline codec round trip.",
            "Outline codec reached through an add-only export hook (overlay/files/gateway/export_outline_verif.go); bounds as reported.", "3/C18"),
    "C19": ("E4", "fault_enumeration",
            "exhaustive single-fault injection (every byte position x 3 flips, every truncation, extreme length prefixes) on recorded frames of real sessions through an in-memory man-in-the-middle; exhaustive size sweeps of every RPC object against the receiver's own limit",
            "Every rhp/v4 and gateway RPC object at sizes 0,1,2,max-1,max,max+1 of every dimension (protocol maxima from the batch limits, Validate methods and independent proof-size arithmetic) is written with the real writer and read from a byte-counting endless reader: valid messages fit the receiver's limit and decode to equal objects, over-limit messages error, reads never exceed the limit, hostile length prefixes neither panic nor allocate out of proportion (worker subprocess); every predeclared error and description length/code is delivered as that RPCError; every sequence of <=3 message shapes over gateway, rhp/v3 and rhp/v2 transports arrives intact and in order; handshake mismatches are rejected; after any tampered frame the read fails, no later read succeeds and (rhp/v2, frame delivered completely) the session is closed.",
            "mux-based transports are tampered only within the first 2 KiB (8 KiB thorough) per direction (dependency, deterministic-batching limit). Known finding: RPCFreeSectorsResponse worst case exceeds its own limit. Fixed: rhp/v2 size errors did not close the transport (fca6cd6), RPCReadResponse decoded an unchecked length before tag verification (3d45940), VerifyTag padding for ciphertext lengths that are multiples of 16 (20f849c).", "3/C19"),
    "C20": ("E2", "exploration",
            "bounded exhaustive enumeration of structured value domains (reflection deviations) for every text/JSON type, exhaustive single-character corruptions of identifiers, and JSON round trips of every update of an explicit-state chain exploration",
            "For every type with a textual or JSON form (inventory built with go/parser at run time, 115 types) parse(print(v)) = v over boundary/base values and all single-field (thorough: pairwise) deviations, incl. all one-byte (thorough two-byte) specifiers, policies in string and JSON form, reused receivers; every single-character corruption of 16 addresses (76 positions x 15 digits) and length/alphabet/prefix corruptions of every identifier type are rejected without panic; for every block of a chain exploration (with reverts) the ApplyUpdate/RevertUpdate that went through JSON refreshes every tracked proof byte-identically to the original and to the reference forest.",
            "Fixed in /repo: over-long hex panics (6472682), uc signature count bit size (b86819e), Specifier receiver not cleared (8c65687), update JSON dropped leaf hash/spent flag (32cfdbe). Known finding: the policy string grammar cannot carry key algorithms containing , ( ) [ ].", "3/C20"),
}

NOT_YET = {}

def main():
    props = [json.loads(l) for l in open('/verif/properties.jsonl')]
    checks = []
    na = []
    for p in props:
        pid = p['id']
        if pid in CHECKS:
            eng, level, tech, text, note, ref = CHECKS[pid]
            checks.append({
                "property_id": pid,
                "quick_cmd": f"./run.sh {pid} quick",
                "thorough_cmd": f"./run.sh {pid} thorough",
                "evidence_file": f"/verif/evidence/{pid}.json",
                "replay_cmd_template": f"./run.sh {pid} --replay {{path}}",
                "engine": eng,
                "level_claimed": {"category": level, "text": text, "design_ref": f"DESIGN.md section {ref}"},
                "level_note": note,
                "technique": tech,
            })
        else:
            na.append({"property_id": pid, "reason": NOT_YET.get(pid, "check not built yet (work in progress; see DESIGN.md section 3 for the planned bounded exhaustive check)")})
    m = {
        "version": 1,
        "setup_cmd": "./run.sh --setup",
        "hooks": {
            "guard": "verif",
            "enable": "go1.26 build -tags verif -overlay <generated by overlay/gen_overlay.py at check time> (add-only files under /verif/overlay/files, virtual package go.sia.tech/core/vsync, and an import rewrite of \"sync\" in types/ and consensus/ regenerated from the working tree); nothing is committed to /repo for instrumentation",
            "baseline_off_cmd": BASELINE_OFF,
            "source_commits": [],
            "add_only": True,
        },
        "engines": [
            {"name": "E1", "path": "/verif/mc/chain", "kind_free_text": "explicit-state explorer over the real ValidateBlock/ApplyBlock/RevertBlock transition function with independent reference ledger and forest", "serves_properties": [p for p in CHECKS if CHECKS[p][0] == "E1"]},
            {"name": "E2", "path": "/verif/mc/vf", "kind_free_text": "bounded exhaustive input enumerator (odometer over structured finite domains) with reference models", "serves_properties": [p for p in CHECKS if CHECKS[p][0] == "E2"]},
            {"name": "E3", "path": "/verif/mc/sched", "kind_free_text": "controlled cooperative scheduler with preemption-bounded stateless DFS over sync.Pool scheduling points", "serves_properties": [p for p in CHECKS if CHECKS[p][0] == "E3"]},
            {"name": "E4", "path": "/verif/mc/checks/c19", "kind_free_text": "exhaustive single-fault injector for frames/streams over an in-memory man-in-the-middle (mc/checks/c19) and hostile-input enumerator for decoders with an address-space-limited worker subprocess (mc/checks/c10)", "serves_properties": [p for p in CHECKS if CHECKS[p][0] == "E4"]},
        ],
        "checks": checks,
        "not_applicable": na,
        "notes": "All checks rebuild the harness against /repo's working tree on every call (run.sh). Exit 0 = held on everything explored; exit 1 + VIOLATION line = violation; exit 2 = harness/build problem (never a VIOLATION line). Known findings: /verif/known_findings.json.",
    }
    json.dump(m, open('/verif/MANIFEST.json', 'w'), indent=1)
    print("claimed:", [c['property_id'] for c in checks])

main()
