#!/usr/bin/env python3-vt
"""Validate MANIFEST.json and every evidence file against the schemas."""
import json, sys, glob, jsonschema
ok = True
m = json.load(open('/verif/MANIFEST.json'))
jsonschema.validate(m, json.load(open('/root/.vp/MANIFEST.schema.json')))
es = json.load(open('/root/.vp/EVIDENCE.schema.json'))
claimed = {c['property_id']: c for c in m['checks']}
na = {c['property_id'] for c in m.get('not_applicable', [])}
props = [json.loads(l)['id'] for l in open('/verif/properties.jsonl')]
for p in props:
    if (p in claimed) == (p in na):
        print('property', p, 'must be exactly one of claimed / not_applicable'); ok = False
for pid, c in claimed.items():
    try:
        ev = json.load(open(c['evidence_file']))
        jsonschema.validate(ev, es)
        if ev['level'] != c['level_claimed']['category']:
            print(pid, 'level mismatch', ev['level'], c['level_claimed']['category']); ok = False
    except Exception as e:
        print(pid, 'evidence invalid:', str(e)[:300]); ok = False
print('valid' if ok else 'INVALID')
sys.exit(0 if ok else 1)
