#!/bin/bash
# seedcheck.sh <dir with patch.diff + *_test.go> <demo package dir rel. to repo, e.g. consensus> <ID> [tier] [more IDs...]
# Confirms a seeded change: (1) suite passes with it, (2) demo fails with it, (3) demo passes without it, (4) our check(s) report a VIOLATION.
set -u
VHOME="$(cd "$(dirname "$0")/.." && pwd)"
seed="$(realpath "$1")"; pkg="$2"; shift 2
ids=(); tier=quick
for a in "$@"; do case "$a" in quick|thorough) tier=$a;; *) ids+=("$a");; esac; done
export GOFLAGS=-mod=mod GOPROXY=off GOSUMDB=off GOTOOLCHAIN=local
scratch="/var/tmp/verif-seed.$$"; rm -rf "$scratch"; mkdir -p "$scratch/vroot"
rsync -a --exclude .git /repo/ "$scratch/repo/"
cleanup() { rm -rf "$scratch" "$VHOME"/.build/$(echo -n "$scratch/repo" | sha256sum | cut -c1-12); }
trap cleanup EXIT
cd "$scratch/repo"
pf="$seed/patch.diff"; [ -f "$seed/patch.rebased.diff" ] && pf="$seed/patch.rebased.diff"
if ! patch -p1 --quiet < "$pf"; then echo "SEED-PATCH-FAILED"; exit 3; fi
if go1.26 test -vet=off -count=1 ./... > "$scratch/suite.log" 2>&1; then echo "1. suite with change: PASS"; else echo "1. suite with change: FAIL"; tail -5 "$scratch/suite.log"; fi
demo=$(ls "$seed"/*_test.go | head -1)
cp "$demo" "$pkg/"
if go1.26 test -vet=off -count=1 "./$pkg/" > "$scratch/demo1.log" 2>&1; then echo "2. demo with change: PASS (unexpected)"; else echo "2. demo with change: FAIL (expected)"; fi
patch -R -p1 --quiet < "$pf"
if go1.26 test -vet=off -count=1 "./$pkg/" > "$scratch/demo2.log" 2>&1; then echo "3. demo without change: PASS (expected)"; else echo "3. demo without change: FAIL (unexpected)"; tail -5 "$scratch/demo2.log"; fi
rm -f "$pkg/$(basename "$demo")"
patch -p1 --quiet < "$pf"
cp "$VHOME"/known_findings.json "$scratch/vroot/"
cd "$VHOME"
for id in "${ids[@]}"; do
  out=$(VERIF_REPO="$scratch/repo" VERIF_NO_EVIDENCE=1 VERIF_ROOT="$scratch/vroot" "$VHOME"/run.sh "$id" "$tier" 2>&1); rc=$?
  if [ $rc -eq 1 ] && echo "$out" | grep -q "^VIOLATION property=$id"; then
    echo "4. $id $tier: CAUGHT  $(echo "$out" | grep -A1 '^VIOLATION' | grep signature | head -3 | tr '\n' ' ')"
  else
    echo "4. $id $tier: MISSED rc=$rc  $(echo "$out" | tail -1)"
  fi
done
