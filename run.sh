#!/bin/bash
# run.sh <ID> [quick|thorough] [--replay file]   |   run.sh --setup
# Rebuilds the harness against the current working tree of $VERIF_REPO (default /repo) on every call.
set -u
export GOFLAGS=-mod=mod GOPROXY=off GOSUMDB=off GOTOOLCHAIN=local
HERE="$(cd "$(dirname "$0")" && pwd)"
REPO="${VERIF_REPO:-/repo}"
GO=go1.26
export VERIF_ROOT="${VERIF_ROOT:-$HERE}"
export VERIF_REPO="$REPO"
key=$(echo -n "$REPO" | sha256sum | cut -c1-12)
BUILD="$HERE/.build/$key"
mkdir -p "$BUILD"

prepare() {
  # go.mod/go.sum for this repo location (the replace directive is the only difference)
  sed "s#@REPO@#$REPO#" "$HERE/mc/go.mod.tmpl" > "$BUILD/go.mod.new"
  # carry over the requirements of the repository so that versions are pinned to what is cached
  awk '/^require \(/{f=1;next} f&&/^\)/{f=0} f{print "require " $1 " " $2}' "$REPO/go.mod" >> "$BUILD/go.mod.new"
  cmp -s "$BUILD/go.mod.new" "$BUILD/go.mod" || cp "$BUILD/go.mod.new" "$BUILD/go.mod"
  cp "$REPO/go.sum" "$BUILD/go.sum"
  # overlay: add-only files guarded by //go:build verif, plus generated sync shim (C09)
  python3 "$HERE/overlay/gen_overlay.py" "$REPO" "$BUILD" "$HERE/overlay" || return 1
}

build() { # $1 = output name, $2... extra flags
  local out="$BUILD/$1"; shift
  (cd "$HERE/mc" && $GO build -modfile="$BUILD/go.mod" -tags verif -overlay "$BUILD/overlay.json" "$@" -o "$out" ./cmd/vcheck) 2> "$BUILD/build.log"
  local rc=$?
  if [ $rc -ne 0 ]; then
    echo "HARNESS-BUILD-FAILED (see $BUILD/build.log)"; head -30 "$BUILD/build.log"
    return 2
  fi
}

if [ "${1:-}" = "--setup" ]; then
  prepare || exit 2
  build vcheck || exit 2
  build vcheck-race -race || exit 2
  echo "setup ok"
  exit 0
fi

ID="${1:?usage: run.sh <ID> [quick|thorough] [--replay file]}"; shift
prepare || { echo "HARNESS-BUILD-FAILED (overlay generation)"; exit 2; }
build vcheck || exit 2
export VERIF_BUILD="$BUILD"
if [ "$ID" = "C09" ]; then
  build vcheck-race -race || exit 2
fi
exec "$BUILD/vcheck" "$ID" "$@"
